#!/bin/bash
# confirm_mut.sh <mutation dir> : confirm in a scratch worktree of /repo HEAD that the patch applies,
# the existing suite passes with it, the demo fails with it and passes without it.
set -u
d=$1
id=$(python3 -c "import json;print(json.load(open('$d/meta.json'))['property'])")
name=$(basename $(dirname $d))_$(basename $d)
wt=/tmp/wtc_$name
rm -rf $wt; git -C /repo worktree prune
git -C /repo worktree add -q --detach $wt HEAD || exit 9
cd $wt
out=$d/confirm.txt
: > $out
if ! git apply --check $d/patch.diff 2>>$out; then echo "APPLY-FAIL" | tee -a $out; git -C /repo worktree remove --force $wt; exit 3; fi
cmd=$(python3 -c "
import json,re
m=json.load(open('$d/meta.json'))
c=m['demo_cmd']
c=re.sub(r'/tmp/wt_C\d+', '$wt', c)
c=re.sub(r'/tmp/mutB?_C\d+/m\d+', '$d', c)
print(c)")
echo "demo: $cmd" >> $out
# without the patch
bash -c "$cmd" > /tmp/confirm_$name.nopatch.log 2>&1; rc0=$?
git apply $d/patch.diff
bash -c "$cmd" > /tmp/confirm_$name.patch.log 2>&1; rc1=$?
# remove demo file before running the suite
git status --short | grep '^??' | awk '{print $2}' | xargs -r rm -rf
cargo test --workspace --no-fail-fast --offline > /tmp/confirm_$name.suite.log 2>&1; rcs=$?
passed=$(grep -E '^test result: ok' /tmp/confirm_$name.suite.log | sed -E 's/.*ok\. ([0-9]+) passed.*/\1/' | paste -sd+ | bc)
failed=$(grep -c 'FAILED\|failed;' /tmp/confirm_$name.suite.log)
echo "demo_without_patch_rc=$rc0 demo_with_patch_rc=$rc1 suite_rc=$rcs suite_passed=$passed" | tee -a $out
cd /; git -C /repo worktree remove --force $wt
if [ $rc0 -eq 0 ] && [ $rc1 -ne 0 ] && [ $rcs -eq 0 ]; then echo CONFIRMED | tee -a $out; exit 0; else echo NOT-CONFIRMED | tee -a $out; exit 1; fi
