#!/usr/bin/env python3
"""Summarise an in-progress Kani -j log: logsum.py <tag>"""
import re, sys
s = open('/verif/.work/logs/%s.log' % sys.argv[1], errors='replace').read()
cur, res, last = {}, [], None
for line in s.splitlines():
    m = re.match(r'Thread (\d+): Checking harness (\S+)\.\.\.', line)
    if m: cur[m.group(1)] = m.group(2); continue
    m = re.match(r'Thread (\d+): *$', line)
    if m: last = m.group(1); continue
    m = re.match(r'VERIFICATION:- (\w+)', line)
    if m: res.append([cur.get(last), m.group(1), None, '']); continue
    m = re.match(r'Verification Time: ([\d.]+)s', line)
    if m and res: res[-1][2] = float(m.group(1))
    m = re.match(r'Failed Checks: (.*)', line)
    if m: pend = m.group(1)
    if 'timed out' in line and res: res[-1][1] = 'TIMEOUT'
done = {r[0] for r in res}
print(len(res), 'done; running:', [v for v in cur.values() if v not in done])
for r in res:
    if r[1] != 'SUCCESSFUL' or (r[2] or 0) > 100: print('  ', r[:3])
