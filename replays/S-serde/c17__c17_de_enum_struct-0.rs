// replay: property=S-serde harness=c17::c17_de_enum_struct crate=serde features=half rustflags=
/// Test generated for harness `c17::c17_de_enum_struct` 
///
/// Check for `assertion`: ""documented enum representation rejected""
///
/// # Warning
///
/// Concrete playback tests combined with stubs or contracts is highly
/// experimental, and subject to change.
///
/// The original harness has stubs which are not applied to this test.
/// This may cause a mismatch of non-deterministic values if the stub
/// creates any non-deterministic value.
/// The execution path may also differ, which can be used to refine the stub
/// logic.

#[test]
fn kani_concrete_playback_c17_de_enum_struct_12564367685842360458() {
    let concrete_vals: Vec<Vec<u8>> = vec![
        // 0
        vec![0],
        // 0
        vec![0],
        // 24
        vec![24],
    ];
    kani::concrete_playback_run(concrete_vals, c17_de_enum_struct);
}
