// replay: property=S-derive harness=gen::s_tagoptf::q::c07 crate=derive features= rustflags=
/// Test generated for harness `gen::s_tagoptf::q::c07` 
///
/// Check for `assertion`: ""derived cbor_len differs from the number of bytes written""

#[test]
fn kani_concrete_playback_c07_15737956252463864482() {
    let concrete_vals: Vec<Vec<u8>> = vec![
        // 21
        vec![21],
        // 0
        vec![0],
        // 1
        vec![1],
        // 0
        vec![0],
    ];
    kani::concrete_playback_run(concrete_vals, c07);
}
