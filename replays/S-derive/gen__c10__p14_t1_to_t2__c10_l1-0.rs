// replay: property=S-derive harness=gen::c10::p14_t1_to_t2::c10_l1 crate=derive features= rustflags=
/// Test generated for harness `gen::c10::p14_t1_to_t2::c10_l1` 
///
/// Check for `assertion`: ""decoder rejects an encoding in the documented format""
///
/// # Warning
///
/// Concrete playback tests combined with stubs or contracts is highly
/// experimental, and subject to change.
///
/// The original harness has stubs which are not applied to this test.
/// This may cause a mismatch of non-deterministic values if the stub
/// creates any non-deterministic value.
/// The execution path may also differ, which can be used to refine the stub
/// logic.

#[test]
fn kani_concrete_playback_c10_l1_1666236387873941399() {
    let concrete_vals: Vec<Vec<u8>> = vec![
        // 24
        vec![24],
    ];
    kani::concrete_playback_run(concrete_vals, c10_l1);
}
