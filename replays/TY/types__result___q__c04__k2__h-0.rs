// replay: property=TY harness=types::result_::q::c04::k2::h crate=core features=half rustflags=
/// Test generated for harness `types::result_::q::c04::k2::h` 
///
/// Check for `cover`: "prefix is strict for some value"
///
/// # Warning
///
/// Concrete playback tests combined with stubs or contracts is highly
/// experimental, and subject to change.
///
/// The original harness has stubs which are not applied to this test.
/// This may cause a mismatch of non-deterministic values if the stub
/// creates any non-deterministic value.
/// The execution path may also differ, which can be used to refine the stub
/// logic.

#[test]
fn kani_concrete_playback_h_14600932416887096637() {
    let concrete_vals: Vec<Vec<u8>> = vec![
        // 0
        vec![0],
        // 0
        vec![0],
    ];
    kani::concrete_playback_run(concrete_vals, h);
}
