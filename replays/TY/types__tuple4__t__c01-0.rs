// replay: property=TY harness=types::tuple4::t::c01 crate=core features=half rustflags=
/// Test generated for harness `types::tuple4::t::c01` 
///
/// Check for `cover`: "cover condition: true"
///
/// # Warning
///
/// Concrete playback tests combined with stubs or contracts is highly
/// experimental, and subject to change.
///
/// The original harness has stubs which are not applied to this test.
/// This may cause a mismatch of non-deterministic values if the stub
/// creates any non-deterministic value.
/// The execution path may also differ, which can be used to refine the stub
/// logic.

#[test]
fn kani_concrete_playback_c01_8584727228148098966() {
    let concrete_vals: Vec<Vec<u8>> = vec![
        // 15
        vec![15],
        // 15
        vec![15],
        // 15
        vec![15, 0],
        // 1
        vec![1],
    ];
    kani::concrete_playback_run(concrete_vals, c01);
}
