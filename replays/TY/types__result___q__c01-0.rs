// replay: property=TY harness=types::result_::q::c01 crate=core features=half rustflags=
/// Test generated for harness `types::result_::q::c01` 
///
/// Check for `assertion`: ""row's maximal encoded length is wrong""
///
/// # Warning
///
/// Concrete playback tests combined with stubs or contracts is highly
/// experimental, and subject to change.
///
/// The original harness has stubs which are not applied to this test.
/// This may cause a mismatch of non-deterministic values if the stub
/// creates any non-deterministic value.
/// The execution path may also differ, which can be used to refine the stub
/// logic.

#[test]
fn kani_concrete_playback_c01_1964044290888670566() {
    let concrete_vals: Vec<Vec<u8>> = vec![
        // 1
        vec![1],
        // 56
        vec![56],
    ];
    kani::concrete_playback_run(concrete_vals, c01);
}
