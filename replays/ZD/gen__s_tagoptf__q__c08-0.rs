// replay: property=ZD harness=gen::s_tagoptf::q::c08 crate=derive features= rustflags=
/// Test generated for harness `gen::s_tagoptf::q::c08` 
///
/// Check for `assertion`: ""derived encoding has a different length than the documented format""

#[test]
fn kani_concrete_playback_c08_13811063199353462169() {
    let concrete_vals: Vec<Vec<u8>> = vec![
        // 40
        vec![40],
        // 0
        vec![0],
        // 1
        vec![1],
        // 1
        vec![1],
    ];
    kani::concrete_playback_run(concrete_vals, c08);
}
