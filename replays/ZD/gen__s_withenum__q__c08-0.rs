// replay: property=ZD harness=gen::s_withenum::q::c08 crate=derive features= rustflags=
/// Test generated for harness `gen::s_withenum::q::c08` 
///
/// Check for `assertion`: ""derived encoding has a different length than the documented format""

#[test]
fn kani_concrete_playback_c08_11377232421084220348() {
    let concrete_vals: Vec<Vec<u8>> = vec![
        // 23
        vec![23],
        // 1
        vec![1],
        // 2
        vec![2],
        // 24
        vec![24],
        // 0
        vec![0],
        // 0
        vec![0],
    ];
    kani::concrete_playback_run(concrete_vals, c08);
}
