// replay: property=ZD harness=gen::s_emap::q::c08 crate=derive features= rustflags=
/// Test generated for harness `gen::s_emap::q::c08` 
///
/// Check for `assertion`: ""derived encoding has a different length than the documented format""

#[test]
fn kani_concrete_playback_c08_4892649322717061435() {
    let concrete_vals: Vec<Vec<u8>> = vec![
        // 1
        vec![1],
        // 0
        vec![0],
        // 32768
        vec![0, 128],
    ];
    kani::concrete_playback_run(concrete_vals, c08);
}
