// replay: property=C10 harness=gen::c10::p09_h2_to_h1::c10_l3 crate=derive features= rustflags=
/// Test generated for harness `gen::c10::p09_h2_to_h1::c10_l3` 
///
/// Check for `assertion`: ""model domain: skip model bound exceeded""
///
/// # Warning
///
/// Concrete playback tests combined with stubs or contracts is highly
/// experimental, and subject to change.
///
/// The original harness has stubs which are not applied to this test.
/// This may cause a mismatch of non-deterministic values if the stub
/// creates any non-deterministic value.
/// The execution path may also differ, which can be used to refine the stub
/// logic.

#[test]
fn kani_concrete_playback_c10_l3_11760719173610579528() {
    let concrete_vals: Vec<Vec<u8>> = vec![
        // 0
        vec![0],
        // 0
        vec![0],
        // 0
        vec![0],
        // 0
        vec![0],
    ];
    kani::concrete_playback_run(concrete_vals, c10_l3);
}
