// replay: property=S-core harness=c07::c07_tok_simple crate=core features=half rustflags=
/// Test generated for harness `c07::c07_tok_simple` 
///
/// Check for `assertion`: ""Token::cbor_len differs from the number of bytes written""

#[test]
fn kani_concrete_playback_c07_tok_simple_13854039027950000144() {
    let concrete_vals: Vec<Vec<u8>> = vec![
        // 23
        vec![23],
    ];
    kani::concrete_playback_run(concrete_vals, c07_tok_simple);
}
