// replay: property=S-core harness=c07::c07_tok_bytes crate=core features=half rustflags=
/// Test generated for harness `c07::c07_tok_bytes` 
///
/// Check for `assertion`: ""Token::Bytes: cbor_len differs from the number of bytes written""

#[test]
fn kani_concrete_playback_c07_tok_bytes_15514268099523142814() {
    let concrete_vals: Vec<Vec<u8>> = vec![
        // 255
        vec![255],
        // 255
        vec![255],
        // 255
        vec![255],
        // 255
        vec![255],
        // 4ul
        vec![4, 0, 0, 0, 0, 0, 0, 0],
    ];
    kani::concrete_playback_run(concrete_vals, c07_tok_bytes);
}
