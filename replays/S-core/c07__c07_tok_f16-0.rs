// replay: property=S-core harness=c07::c07_tok_f16 crate=core features=half rustflags=
/// Test generated for harness `c07::c07_tok_f16` 
///
/// Check for `assertion`: ""Token::cbor_len differs from the number of bytes written""

#[test]
fn kani_concrete_playback_c07_tok_f16_12542301468743573582() {
    let concrete_vals: Vec<Vec<u8>> = vec![
        // 1010827264
        vec![0, 0, 64, 60],
    ];
    kani::concrete_playback_run(concrete_vals, c07_tok_f16);
}
