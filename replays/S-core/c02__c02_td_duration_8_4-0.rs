// replay: property=S-core harness=c02::c02_td_duration_8_4 crate=core features=half rustflags=
/// Test generated for harness `c02::c02_td_duration_8_4` 
///
/// Check for `assertion`: "This is a placeholder message; Kani doesn't support message formatted at runtime"
///
/// # Warning
///
/// Concrete playback tests combined with stubs or contracts is highly
/// experimental, and subject to change.
///
/// The original harness has stubs which are not applied to this test.
/// This may cause a mismatch of non-deterministic values if the stub
/// creates any non-deterministic value.
/// The execution path may also differ, which can be used to refine the stub
/// logic.

#[test]
fn kani_concrete_playback_c02_td_duration_8_4_17643917764093272269() {
    let concrete_vals: Vec<Vec<u8>> = vec![
        // 255
        vec![255],
        // 255
        vec![255],
        // 255
        vec![255],
        // 255
        vec![255],
        // 255
        vec![255],
        // 255
        vec![255],
        // 255
        vec![255],
        // 255
        vec![255],
        // 178
        vec![178],
        // 204
        vec![204],
        // 89
        vec![89],
        // 255
        vec![255],
    ];
    kani::concrete_playback_run(concrete_vals, c02_td_duration_8_4);
}
