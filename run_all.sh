#!/bin/sh
# run every registered quick check once, sequentially (what `vp check` does)
cd /verif
for p in "$@"; do
  s=$(date +%s)
  ./check $p --tier quick > /tmp/q_$p.log 2>&1
  rc=$?
  e=$(date +%s)
  echo "$p rc=$rc $((e-s))s $(grep -c HOLDS /tmp/q_$p.log) holds" >> /tmp/all_quick.log
done
