#!/bin/bash
# test_mut.sh <mutation dir> <PROP> [extra check args]: run a registered check against a seeded change in a private worktree.
d=$1; prop=$2; shift 2
name=$(basename $(dirname $d))_$(basename $d)_$prop
wt=/tmp/mw_$name; work=/tmp/mwork_$name
rm -rf $wt $work; git -C /repo worktree prune
git -C /repo worktree add -q --detach $wt HEAD || exit 9
(cd $wt && git apply $d/patch.diff) || { echo "APPLY-FAIL"; git -C /repo worktree remove --force $wt; exit 3; }
cd /verif
s=$(date +%s)
VERIF_REPO=$wt VERIF_WORK=$work ./check $prop --tier quick "$@" > $d/check_$prop.log 2>&1
rc=$?
e=$(date +%s)
viol=$(grep -c '^VIOLATION' $d/check_$prop.log)
echo "$name rc=$rc violations=$viol $((e-s))s :: $(grep -m3 'FAILED' $d/check_$prop.log | awk '{print $2}' | tr '\n' ' ')" | tee -a /tmp/mut_results.log
git -C /repo worktree remove --force $wt; rm -rf $work
exit $rc
