#!/usr/bin/env python3
"""Collect confirmed seeded changes from /tmp/mut_*/m* into /verif/seeded/<PROP>-m<i>/ and write README.md.
meta.json: which property it breaks, what it needs to manifest, what was run (confirmation + checks)."""
import glob, json, os, re, shutil
rows = []
for d in sorted(glob.glob('/tmp/mut_C*/m*') + glob.glob('/tmp/mutB_C*/m*')):
    meta = json.load(open(os.path.join(d, 'meta.json')))
    prop = meta['property']
    name = '%s-%s' % (prop, os.path.basename(d) if '/mut_' in d else os.path.basename(d).replace('m', 'b'))
    conf = open(os.path.join(d, 'confirm.txt')).read() if os.path.exists(os.path.join(d, 'confirm.txt')) else ''
    if 'CONFIRMED' not in conf or 'NOT-CONFIRMED' in conf:
        print('skip (not confirmed):', d); continue
    out = os.path.join('/verif/seeded', name)
    os.makedirs(out, exist_ok=True)
    shutil.copy(os.path.join(d, 'patch.diff'), os.path.join(out, 'patch.diff'))
    for f in os.listdir(d):
        if f.startswith('demo') and os.path.isfile(os.path.join(d, f)):
            shutil.copy(os.path.join(d, f), os.path.join(out, f))
    checks = {}
    for lg in glob.glob(os.path.join(d, 'check_*.log')):
        p = re.search(r'check_(\w+)\.log', lg).group(1)
        t = open(lg, errors='replace').read()
        viol = re.findall(r'^VIOLATION property=(\S+) replay=\S*/([^/\s]+)$', t, re.M)
        failed = re.findall(r'^\s+FAILED\s+(\S+)', t, re.M)
        summ = re.findall(r'^== \w+: .*$', t, re.M)
        checks[p] = {'cmd': './check %s --tier quick (against a worktree with the patch applied)' % p,
                     'detected': bool(viol), 'violations': len(viol), 'failed_harnesses': failed[:8], 'summary': summ[-1] if summ else ''}
    m2 = {'property': prop, 'summary': meta.get('summary'), 'needs': meta.get('needs'), 'files_changed': meta.get('files_changed'),
          'demo_cmd': re.sub(r'/tmp/mutB?_C\d+/m\d+', '/verif/seeded/' + name, meta.get('demo_cmd', '')),
          'origin': 'independent sub-agent given only the property text and a scratch worktree',
          'confirmed': {'how': 'confirm_mut.sh: scratch worktree of /repo HEAD; patch applies; cargo test --workspace --offline passes (69 incl. doctests); demo fails with the patch and passes without it',
                        'result': conf.strip().splitlines()[-2:] if conf else []},
          'rebased': os.path.exists(os.path.join(d, 'patch.orig.diff')),
          'checks_run': checks}
    json.dump(m2, open(os.path.join(out, 'meta.json'), 'w'), indent=1)
    rows.append((name, prop, meta.get('summary', '')[:110].replace('|', '/'), checks))
with open('/verif/seeded/README.md', 'w') as f:
    f.write('# Seeded changes and which checks catch them\n\nEach directory holds `patch.diff` (applies to /repo HEAD with `git -C /repo apply`), the demonstration and `meta.json`.\n'
            'All were produced by sub-agents that saw only the property text, and confirmed with `confirm_mut.sh` (suite still passes, demo fails only with the patch).\n\n'
            '| seeded change | breaks | what it does | check(s) run | caught by (harnesses) |\n|---|---|---|---|---|\n')
    for name, prop, summ, checks in rows:
        ran = ', '.join('%s:%s' % (p, 'VIOLATION' if c['detected'] else 'missed') for p, c in sorted(checks.items())) or 'not run yet'
        by = '; '.join(', '.join(c['failed_harnesses'][:3]) for p, c in sorted(checks.items()) if c['detected'])
        f.write('| %s | %s | %s | %s | %s |\n' % (name, prop, summ, ran, by))
print('packed', len(rows))
