#!/usr/bin/env python3
"""Collect confirmed seeded changes from /tmp/mut_*/m* (round A) and /tmp/mutB_*/m* (round B) into
/verif/seeded/<PROP>-<a|b><i>/ and write seeded/README.md.  meta.json: which property it breaks, what it needs to
manifest, what was run (confirmation + every check run against it, in order)."""
import glob, json, os, re, shutil

# history of check runs: /tmp/mut_results.log (written by test_mut.sh), rounds separated by '----' lines
hist = {}
rnd = "round 1 (first version of the checks)"
if os.path.exists('/tmp/mut_results.log'):
    for line in open('/tmp/mut_results.log'):
        if line.startswith('----'):
            rnd = line.strip('- \n'); continue
        m = re.match(r'(mutB?)_(C\d+)_(m\d)_(C\d+) rc=(\d+) violations=(\d+) (\d+)s :: (.*)', line)
        if m:
            key = (m.group(1), m.group(2), m.group(3))
            hist.setdefault(key, []).append({'check': m.group(4), 'exit': int(m.group(5)), 'violations': int(m.group(6)), 'wall_s': int(m.group(7)),
                                             'failed_harnesses': m.group(8).split(), 'when': rnd})
NOTES = {
 'C06-a1': 'alloc build of skip(), stack mode: the smallest witness (83 9f ff a1 01 02 03 / 82 9f ff a1 00 00) lies beyond the all-strings harnesses of the alloc build (N <= 2). The thorough-tier harnesses c06_stack_mode_* (concrete stack-mode prefix + symbolic sibling) FIND it (FAILED after ~20-30 min, 16 GB), but the counterexample trace needed for the native replay exceeds the 40 GB playback cap, so the check ends inconclusive (exit 2), not VIOLATION.',
 'C02-b1': 'alloc build of skip() in stack mode with an 8-byte container length and a stray break: the defect is WORK proportional to the declared length (a hang), visible to CBMC only as an unwinding-assertion failure, which the driver classifies as inconclusive by design (a too-small unwind bound is normally a harness problem); no output/position assertion is violated within the bound.',
 'C20-a2': 'the error CLASS of minicbor-serde\'s DecodeError is not observable through its public API except via Display text; core::fmt is out of reach (C19) and differing messages are a permitted difference in C20\'s statement. Not a violation the checks can or should see.',
 'C10-b1': 'caught by the C06 check (c06_head_3b in the alloc build: skip() fails on a well-formed negative integer below i64::MIN); C10\'s own check replaces Decoder::skip by its R3 model, so a bug inside skip is invisible to it by construction.',
}

rows = []
for d in sorted(glob.glob('/tmp/mut_C*/m?') + glob.glob('/tmp/mutB_C*/m?')):
    if not os.path.isdir(d) or not os.path.exists(os.path.join(d, 'meta.json')):
        continue
    meta = json.load(open(os.path.join(d, 'meta.json')))
    prop = meta['property']
    rb = 'mutB' if '/mutB_' in d else 'mut'
    name = '%s-%s%s' % (prop, 'b' if rb == 'mutB' else 'a', os.path.basename(d)[1:])
    conf = open(os.path.join(d, 'confirm.txt')).read() if os.path.exists(os.path.join(d, 'confirm.txt')) else ''
    if 'CONFIRMED' not in conf or 'NOT-CONFIRMED' in conf.splitlines()[-1]:
        print('skip (not confirmed):', d); continue
    out = os.path.join('/verif/seeded', name)
    os.makedirs(out, exist_ok=True)
    shutil.copy(os.path.join(d, 'patch.diff'), os.path.join(out, 'patch.diff'))
    for f in os.listdir(d):
        if f.startswith('demo') and os.path.isfile(os.path.join(d, f)):
            shutil.copy(os.path.join(d, f), os.path.join(out, f))
    runs = hist.get((rb, os.path.basename(os.path.dirname(d)).split('_')[1], os.path.basename(d)), [])
    m2 = {'property': prop, 'summary': meta.get('summary'), 'needs': meta.get('needs'), 'files_changed': meta.get('files_changed'),
          'demo_cmd': re.sub(r'/tmp/mutB?_C\d+/m\d+', '/verif/seeded/' + name, meta.get('demo_cmd', '')),
          'origin': 'independent sub-agent given only the property text and a scratch worktree (round %s)' % ('B' if rb == 'mutB' else 'A'),
          'confirmed': {'how': 'confirm_mut.sh: scratch worktree of /repo HEAD; patch applies; cargo test --workspace --offline passes (69 incl. doctests); demo fails with the patch and passes without it',
                        'result': conf.strip().splitlines()[-2:] if conf else []},
          'rebased_onto_fix_commits': os.path.exists(os.path.join(d, 'patch.orig.diff')),
          'checks_run': [dict(r, cmd='VERIF_REPO=<worktree with the patch> ./check %s --tier quick' % r['check']) for r in runs]}
    json.dump(m2, open(os.path.join(out, 'meta.json'), 'w'), indent=1)
    rows.append((name, prop, (meta.get('summary') or '')[:120].replace('|', '/').replace('\n', ' '), runs))

def verdict(r):
    return 'VIOLATION' if r['exit'] == 1 and r['violations'] > 0 else ('inconclusive' if r['exit'] == 2 else 'missed')

with open('/verif/seeded/README.md', 'w') as f:
    f.write('# Seeded changes and which checks catch them\n\n'
            'Each directory holds `patch.diff` (applies to /repo HEAD with `git -C /repo apply`), the demonstration and `meta.json`.\n'
            'All were produced by sub-agents that saw only the property text (two rounds, 38 each), and confirmed with `confirm_mut.sh`\n'
            '(existing suite still passes, demo fails only with the patch).  Every check run against a change is listed in order:\n'
            'a change that was missed at first and caught after the checks were strengthened shows both runs.\n'
            '`inconclusive` = the check exited 2 (timeout / memory under load, or a counterexample whose native replay could not be produced).\n\n')
    total = len(rows)
    caught = sum(1 for r in rows if any(verdict(x) == 'VIOLATION' for x in r[3]))
    f.write('**%d seeded changes, %d caught by at least one registered check (quick tier).**\n\n' % (total, caught))
    f.write('| seeded change | breaks | what it does | check runs (in order) | caught by |\n|---|---|---|---|---|\n')
    for name, prop, summ, runs in rows:
        ran = '; '.join('%s: %s' % (r['check'], verdict(r)) for r in runs) or 'not run'
        by = ', '.join(sorted({h for r in runs if verdict(r) == 'VIOLATION' for h in r['failed_harnesses'][:3]}))
        f.write('| %s | %s | %s | %s | %s |\n' % (name, prop, summ, ran, by))
    f.write('\n## Changes no registered check catches, and why\n\n')
    for name, prop, summ, runs in rows:
        if not any(verdict(x) == 'VIOLATION' for x in runs):
            f.write('* **%s** — %s\n  *Why not caught:* %s\n' % (name, summ, NOTES.get(name, 'see DESIGN.md section 8')))
print('packed', len(rows))
