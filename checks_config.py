"""Which Kani harnesses decide which property, per tier.  Harness naming convention:
cNN_*  = harness of property CNN;  cNN_t_* = thorough tier only (quick filters use cNN_q_ or explicit lists)."""

DEFAULT_TIMEOUT = {"quick": 900, "thorough": 3600}
DEFAULT_MEM_GB = {"quick": 12, "thorough": 24}
DEFAULT_JOBS = {"quick": 12, "thorough": 8}
THOROUGH_EXTRA_LAYOUTS = 3   # per schema, drawn with VERIF_SEED (derive harness crate, thorough tier only)

TRUSTED_BASE = [
    "rustc + Kani 0.68 MIR->goto translation, CBMC 6.11, CaDiCaL",
    "Kani's models of alloc and intrinsics",
    "reference models R1..R8 in /verif/harness/vref (self-tested natively on every run against RFC 8949 Appendix A, core::str and f64 arithmetic)",
]
COMMON_ASSUMPTIONS = [
    "64-bit little-endian host target (x86_64-unknown-linux-gnu); 32-bit cfg arms are not compiled",
    "dev profile semantics (overflow checks on) as modelled by Kani; counterexamples are replayed in dev and release",
]

HOOK_COMMITS = ["f61912e"]

CORE_HALF = {"crate": "core", "features": ["half"]}

def core(filters, features=("half",), **kw):
    g = {"crate": "core", "features": list(features), "filters": filters, "zflags": ["stubbing"]}
    g.update(kw)
    return g

def derive(filters, features=(), **kw):
    g = {"crate": "derive", "features": list(features), "filters": filters, "zflags": ["stubbing"]}
    g.update(kw)
    return g

def io(filters, **kw):
    g = {"crate": "io", "features": [], "filters": filters, "zflags": ["stubbing"], "rustflags": "--cfg minicbor_verif", "kani_args": []}
    g.update(kw)
    return g

def serde(filters, features=("half",), **kw):
    g = {"crate": "serde", "features": list(features), "filters": filters, "zflags": ["stubbing"]}
    g.update(kw)
    return g

# the accessor / encoder / skip-model harnesses that are cheap in every feature build (alloc builds carry a String in
# decode::Error, which makes the error paths of the full C04/C05 sets 50x more expensive: c05_datatype_* > 25 min)
C20_SMALL = ["c05::c05_u8", "c05::c05_u64", "c05::c05_i8", "c05::c05_i64", "c05::c05_int", "c05::c05_char", "c04::c04_datatype", "c03::c03_u64", "c03::c03_i64", "c03::c03_simple", "c06::c06_lm"]

# every C17 harness except c17_any_38 / c17_any_39 / c17_de_tuple_len, whose error paths build their message with format! in alloc
# builds (core::fmt: > 15 min each, see C19); they are checked under {} and {half}
C17_NO_FMT = ["c17::c17_ser_", "c17::c17_de_u", "c17::c17_de_i", "c17::c17_de_seq", "c17::c17_de_map", "c17::c17_de_enum", "c17::c17_de_bool", "c17::c17_de_str", "c17::c17_human",
              "c17::c17_any_0", "c17::c17_any_1", "c17::c17_any_2", "c17::c17_any_4", "c17::c17_any_6", "c17::c17_any_c", "c17::c17_any_e", "c17::c17_any_f"]

PROPS = {
    "C01": {
        "title": "value round-trip of the built-in codecs",
        "bounds": "per concrete instantiation (one harness each, listed in the evidence): ALL values of the type symbolic (every width boundary inside the query); "
                  "encode into a 32-byte cursor, decode from a fresh array of the type's maximal encoded length; compound types over scalar fields; "
                  "Option/Bound rows use the R3 model of Decoder::skip (C06 proves skip == R3); alloc/std rows (String, Box, ByteVec, Vec/VecDeque <= 1 element with CONCRETE element counts on the decode side, Ipv4Addr, Ipv6Addr, IpAddr, SocketAddrV4) in a {half,std} build",
        "outside": "HashMap/HashSet (SipHash/RandomState not encodable), BTreeMap/BTreeSet/BinaryHeap/LinkedList and Vec/VecDeque with >= 2 elements on the decode side, SystemTime round trip (all exhaust 12 GB), strings > 4 bytes, tuples > 4",
        "assumptions": ["Decoder::skip replaced by the R3 model in rows whose decoder skips a null/unit placeholder"],
        "groups": [core({"quick": ["::q::c01", "c01b::c01_q_", "c01t::c01_q_"], "thorough": ["::c01", "c01b::c01_q_", "c01t::c01_q_"]}),
                   core(["types_alloc::"], features=("half", "std"))],
    },
    "C02": {
        "title": "decoding untrusted bytes is total",
        "bounds": "every typed accessor from an arbitrary start position (any usize) on <= 4 symbolic bytes; probe; Size::head/tail on 9 bytes; "
                  "bytes/str/array/map iterators drained on all inputs <= 4 (3) bytes with the unwinding assertion as the work bound; drop-exactly-once "
                  "for [D;3] / (D,D) on all 5-/4-byte inputs; Duration type-directed (all 2^96 payloads); what the iterators PROMISE (size_hint lower bound = what collect()/extend() pre-allocate) of array_iter/array_iter_with/map_iter/map_iter_with/bytes_iter/str_iter "
                  "<= items the input can still hold, for ANY 8-byte declared length; collections with a declared length of 2^32..2^64 on a short input (alloc group); plus Kani's panic/overflow/pointer checks in every "
                  "C04/C05/C11 harness (those run the accessors on all 9-byte heads from position 0)",
        "outside": "inputs longer than the stated lengths; wall-clock time (iteration counts are bounded instead); the global allocator",
        "assumptions": ["core::str::from_utf8 over-approximated in the iterator harnesses (validated unstubbed in C04)"],
        "groups": [core(["c02::c02_"]), core(["c02::with_alloc::"], features=("half", "alloc"))],
    },
    "C03": {
        "title": "encoder output is well-formed, deterministic, shortest form",
        "bounds": "every Encoder method over its FULL argument domain (u8..u64, i8..i64, Int, char, tag/array/map lengths: all 2^64; f32/f64 all patterns; simple: all 256 "
                  "minus the known finding 20..=31); bytes/str payload <= 4 bytes and lengths up to 65537 through a counting sink; all 10^4 sequences of 4 one-byte calls over 10 call kinds; "
                  "every built-in Encode impl of the C01 rows vs an independent reference encoding",
        "outside": "payloads > 4 bytes (only their heads, up to 65537), call sequences > 4, ArrayIter/MapIter over more than 2 items",
        "assumptions": [],
        "groups": [core({"quick": ["c03::c03_", "::q::c03", "c01t::c01_q_tok"], "thorough": ["c03::c03_", "::c03", "c01t::c01_q_tok"]})],
    },
    "C04": {
        "title": "typed decoding agrees with the RFC 8949 data model",
        "bounds": "single items: 9 symbolic head bytes (+ <= 4 payload) with symbolic length for the integer accessors (shared with C05), array/map/tag/simple/bool/null/undefined/datatype/bytes/str; "
                  "indefinite strings (2 chunks, concrete lengths, symbolic content) through bytes_iter/str_iter; array_iter values; Range/Duration/RangeFrom from indefinite arrays and wide heads "
                  "(UTF-8 validated unstubbed against RFC 3629 for all payloads <= 4 bytes); prefix clause: for each C01 row, each listed concrete cut point k, all values symbolic",
        "outside": "indefinite-length string iterators (C02 covers their totality), nested typed containers deeper than the C01 rows, cut points not listed",
        "assumptions": ["on a complete item read through a NON-matching accessor only is_err() is required (minicbor may answer end-of-input there)"],
        "groups": [core({"quick": ["c04::c04_", "::q::c04::", "c05::c05_u", "c05::c05_i", "c05::c05_char"], "thorough": ["c04::c04_", "::c04::", "c05::c05_"]})],
    },
    "C06": {
        "title": "skip() consumes exactly one item",
        "bounds": "structure: ALL byte strings of length N over the 13-letter alphabet of one-byte items (00 20 80 81 82 83 9f a0 a1 bf c1 f6 ff), N = 1..4 (quick) / ..7 (thorough) "
                  "in the no-alloc build, N = 1..2 in the alloc build in the THOROUGH tier only (explicit Vec stack: N=2 takes ~13 min; N=3 did not finish inside the session and is not claimed); the quick tier checks the alloc build on the heads group only (chunked strings in the alloc build: thorough), vs the independent item-boundary parser R3, incl. every strict prefix and arbitrary suffix; "
                  "leaf accessors replaced by one-byte models proven equivalent on that domain (c06_lm_*); heads and strings: one item per concrete initial byte with the real accessors; "
                  "full-width counters: a definite array / map head with ANY 8-byte length (symbolic) followed by 0 or 2 one-byte scalars and the end of the input (no-alloc quick, alloc thorough): Ok exactly when the declared item count (2n for maps, unwrapped) is present; "
                  "alloc stack mode behind a concrete prefix (83 9f ff / 82 9f) + one symbolic alphabet byte + 3 bytes over {00, ff} (thorough)",
        "outside": "more than N one-byte items; multi-byte heads inside nested containers other than the 8-byte-length family (compositional: lm_equiv + heads group); depth-10^4 chains; the alloc build's stack-mode logic beyond N=2 other than behind the three concrete prefixes of c06_stack_mode_* (thorough tier, 20-30 min each); "
                   "work bounds (a loop that spins without consuming shows up only as an unwinding-assertion failure = inconclusive)",
        "assumptions": ["leaf models (each proven equivalent to the real accessor on the asserted domain)", "from_utf8 modelled as always-valid in the text-head harnesses (boundaries, not validation)"],
        "groups": [core({"quick": ["c06::c06_lm", "c06::c06_a1_n1", "c06::c06_a1_n2", "c06::c06_a1_n3", "c06::c06_a1_n4", "c06::c06_wide", "c06_gen::q::"], "thorough": ["c06::c06_", "c06_gen::"]}),
                   core({"quick": ["c06_gen::q::c06_head_", "c06::c06_lm"], "thorough": ["c06::c06_a1_n1", "c06::c06_a1_n2", "c06::c06_wide", "c06_gen::", "c06::c06_lm"]}, features=("half", "alloc"),
                        timeout={"quick": 600, "thorough": 7200}, jobs={"quick": 12, "thorough": 6}, mem_gb={"quick": 12, "thorough": 24}),
                   # 16 GB each: three at a time
                   core(["c06::c06_stack_mode"], features=("half", "alloc"), tiers=["thorough"], timeout={"thorough": 7200}, jobs={"thorough": 3}, mem_gb={"thorough": 24})],
    },
    "C07": {
        "title": "CborLen is exact",
        "bounds": "built-ins: every C01 row, all values; every Token variant (payload <= 4 bytes); derived: the schema family of harness/derive/gen.py (29 rows crossing array/map, "
                  "gaps, permutation, optionals in every position, tags at every level, transparent, skip, bytes codec, index_only, nesting), all values x presence combinations symbolic",
        "outside": "structs with >= 24 fields (CBMC runs out of memory on the 25-field schema; the map-header defect there was found by reading and is demonstrated natively); generics / borrowing / custom nil-aware codecs beyond the hand-written instances of harness/derive/src/extra.rs",
        "assumptions": [],
        "groups": [core({"quick": ["::q::c07", "c07::c07_tok"], "thorough": ["::c07", "c07::c07_tok"]}), derive({"quick": ["::q::c07", "extra::c08_q_"], "thorough": ["::c07", "extra::c08_q_"]})],
    },
    "C08": {
        "title": "derived Encode emits the documented wire format",
        "bounds": "each schema row (see C07) x all values x all presence combinations: bytes == reference encoder R6 generated from the same row per the documentation "
                  "(minicbor-derive/src/lib.rs 'CBOR encoding'); rename/permutation independence through the PlainR pair of C10",
        "outside": "schemas outside the family; >= 24 fields; convention chosen where the documentation is silent: an absent tagged optional inside an array is written as tag(null)",
        "assumptions": [],
        "groups": [derive({"quick": ["::q::c08", "extra::c08_q_"], "thorough": ["::c08", "extra::c08_q_"]})],
    },
    "C09": {
        "title": "derived round trip",
        "bounds": "type-directed inputs: per schema row up to 5 concrete layouts (head-width classes in-head/own-width/wider, presence all/none/random, definite/indefinite/wide container heads) with ALL "
                  "argument bytes symbolic + a symbolic suffix byte: decoded value == value denoted, position == item end; negative: wrong tag (all other 16-bit tags), missing tag, missing "
                  "mandatory field, unknown variant => error of the documented class. Round trip through the real encoder follows with C08 (encoder output is one of these layouts)",
        "outside": "encode->decode in ONE query (symbolic cursor after variable-width heads: > 300 s per schema, abandoned); in-head values other than the sampled constants 0/1/22/23; "
                  "Cow fields with #[b] (need alloc); generics / borrowing / custom nil codecs beyond the hand-written instances (extra.rs)",
        "assumptions": ["Decoder::skip replaced by the R3 model (C06 proves skip == R3); on a lone break byte the model consumes it as the real skip does"],
        "groups": [derive({"quick": ["::q::c09_", "::q::c08", "extra::c0"], "thorough": ["::c09_", "::c08", "extra::c0"]}),
                   derive({"quick": ["extra::with_alloc::"], "thorough": ["extra::with_alloc::", "::q::c09_wrong"]}, features=("alloc",))],
    },
    "C10": {
        "title": "derived codecs are forward/backward compatible",
        "bounds": "19 (writer, reader) pairs over the documented compatible edits (rename/permute, add/drop optional at new and gap index in array and map, variants added to regular and index_only "
                  "enums in optional fields, unit->struct/tuple variant, tagged optional at a gap, unknown fields/keys ignored, missing mandatory => error), each with up to 5 type-directed layouts, "
                  "all argument bytes symbolic; the writer side (derived bytes == documented layout) is the C08 harness set, included in this check",
        "outside": "edit sequences longer than one edit; unknown-field contents beyond the two sampled shapes (nested struct, byte string)",
        "assumptions": ["Decoder::skip replaced by the R3 model"],
        "groups": [derive({"quick": ["gen::c10::p", "::q::c08"], "thorough": ["gen::c10::p", "::c08"]})],
    },
    "C14": {
        "title": "framed blocking I/O",
        "bounds": "Reader: one frame (2-byte payload) + start of a second, EVERY split into reads of 1 or up to 4 bytes, <= 2 Interrupted errors at any point, EVERY truncation point 0..=6; "
                  "two frames then clean end (thorough); undecodable payload then a good frame; max_len 0..=4 vs all 2^32 declared lengths; Writer: all (u8,bool) values, sink accepting 1 byte or all per call, max_len 0..=5",
        "outside": "streams > 11 bytes / > 2 frames; read sizes other than {1, up to 4}; payloads >= 4 GiB; 'exhaustive for streams <= 20 bytes' of the statement is not reached",
        "assumptions": ["Vec::resize / Vec::extend_from_slice replaced by fixed-capacity growth models that assert new_len <= capacity (std code, not minicbor's)",
                        "encode::Error::write stubbed as unreachable for the infallible Vec sink (Kani 0.68 ICE work-around)"],
        "groups": [io({"quick": ["c14::c14_reader", "c14::c14_undecodable", "c14::c14_writer"], "thorough": ["c14::c14_"]}, timeout={"quick": 1200, "thorough": 3600})],
    },
    "C15": {
        "title": "AsyncReader is cancellation-safe",
        "bounds": "ONE inductive step (one harness per Inv state family and offset: ReadLen o=0..4, ReadVal o=0..2): from every reader state satisfying the representation invariant Inv (ReadLen(b,o), o<=4, b[..o] = frame prefix bytes | ReadVal(o), buffer.len()==declared, "
                  "buffer[..o] = payload bytes; source positioned at exactly the bytes accounted for), built through the cfg(minicbor_verif) hook, one read() future is created, polled ONCE and dropped; "
                  "every inner source read answers Pending / transient error / EOF / 1 byte / up to 4 bytes (quick: <= 1, thorough: <= 2 completed reads per poll); frame = 2-byte payload, EOF point symbolic; plus scripted-source steps (each read outcome of the poll CONCRETE: Pending / error / 1 byte / max bytes / EOF; payload and stale bytes symbolic; up to 3 reads per poll; 4 scripts quick, 94 thorough: every [data, x] script from every state with bytes missing and [k1, k1, x]). "
                  "Post: value == frame value & source behind the frame & fresh state | Pending/transient error => Inv again | EOF inside => UnexpectedEof | clean end only at a boundary. Base case: new() satisfies Inv",
        "outside": "the lifting from one step to poll/drop schedules of any length is an induction ARGUMENT (post-states are Inv states, which are all covered as pre-states), not a query; payloads > 2 bytes; > 2 completed reads in one poll",
        "assumptions": ["Vec::resize replaced by a fixed-capacity growth model", "hook: cfg(minicbor_verif) __verif_from_parts/__verif_state (add-only)"],
        "groups": [io({"quick": ["c15::c15_q_step", "c15::c15_new"], "thorough": ["c15::c15_q_step", "c15::c15_t_step", "c15::c15_new"]}, timeout={"quick": 850, "thorough": 3600}, mem_gb={"quick": 15, "thorough": 30}, jobs={"quick": 4, "thorough": 2}),
                   io({"quick": ["c15::c15_q_s_"], "thorough": ["c15::c15_q_s_", "c15::c15_t_s_"]}, timeout={"quick": 600, "thorough": 1800}, mem_gb={"quick": 15, "thorough": 15}, jobs={"quick": 4, "thorough": 3})],
    },
    "C16": {
        "title": "AsyncWriter delivers whole frames in order under short writes and cancel+sync",
        "bounds": "ONE inductive step: from every writer state (any 6-byte buffer, None | WriteFrom(o), o<=len) one sync() future polled once and dropped, every inner write answers Pending / transient error / "
                  "Ok(0) / Ok(1) / Ok(all) (<= 2 completed writes per poll): sink got exactly buffer[o..o+n] in order, state accounts for it, Ok(0) => WriteZero, idle sync writes nothing; "
                  "write() of all (u8,bool) from idle, one poll: sink holds a prefix of len_be32++encoding, Pending => buffer == frame & state == WriteFrom(n), completion returns the payload length; "
                  "max_len 0..=5; a failing Encode impl puts nothing into the sink",
        "outside": "the lifting to schedules of any length is an induction argument under the statement's own precondition (a dropped write is followed by sync to completion); frames > 8 bytes",
        "assumptions": ["Vec::resize / extend_from_slice growth models", "encode::Error::write stubbed unreachable for the infallible Vec sink", "hook: cfg(minicbor_verif)"],
        "groups": [io(["c16::c16_"], timeout={"quick": 1200, "thorough": 3600})],
    },
    "C17": {
        "title": "serde bridge: documented representation and method pairing",
        "bounds": "every primitive Serializer method over its full argument domain vs the preferred reference encoding; str/bytes payload <= 4; every composite Serializer shape "
                  "(some/newtype/unit/unit-variant/newtype-, tuple-, struct-variant, seq & map with and without length, tuple, tuple struct, struct) vs the documented representation, well-formed per R3; "
                  "every integer Deserializer method on all 9-byte heads with a visitor accepting exactly one visit method; bool/unit/option/str/bytes; seq/tuple/map through SeqAccess/MapAccess on "
                  "definite and indefinite containers of <= 2 elements (type-directed, element bytes symbolic); enum with unit/newtype/tuple/struct VariantAccess; deserialize_any per concrete initial byte; ignored_any",
        "outside": "end-to-end from_slice::<T> for serde-DERIVED T (the generated visitors exhaust CBMC: > 10 GB); flatten / internally tagged / untagged representations (serde-derive glue, Content buffering); "
                   "the round trip of derived types follows only compositionally from (representation) + (method contracts), with serde-derive's own glue trusted",
        "assumptions": ["hand-written minimal visitors stand in for serde-derive's", "Decoder::skip replaced by the R3 model; from_utf8 over-approximated where validation is not the subject"],
        "groups": [serde({"quick": ["c17::c17_"], "thorough": ["c17::c17_"]})],
    },
    "C18": {
        "title": "serde bridge and native traits interoperate",
        "bounds": "identical bytes from Encode and Serialize for ALL values of u8..u64, i8..i64, bool, char, f32, f64, (), &str <= 4 bytes, Option<u16>, (u8,bool), ((i32,bool,Option<u8>),char), [u16;2]; "
                  "native decode vs serde Deserialize (serde's own impls) on the same 9 symbolic head bytes for u8/u32/i16/i64/bool: same Ok/Err, value and position; composite shapes on type-directed "
                  "inputs incl. wider heads: never a disagreement on the value",
        "outside": "ordered maps, sequences > 2 elements, Vec (alloc) in the quick tier, indefinite containers on the native side of tuples (both sides reject)",
        "assumptions": ["serde's own Deserialize impls for primitives, tuples, arrays and Option are part of what is executed (trusted as serde's)"],
        "groups": [serde(["c18::c18_"])],
    },
    "C20": {
        "title": "same behaviour in every feature configuration",
        "bounds": "no cross-build query exists: agreement is shown by TRANSITIVITY through a complete oracle. The identical harness sources of C05 (all integer heads x all accessors), C04 (accessors vs R1/R8), "
                  "C03 (every Encoder method), C06 (skip vs R3; the documented no-alloc difference is cfg-ed into the oracle) and, with half, C11 steps / C12 are verified against minicbor built with "
                  "{} and {alloc} (quick: the u8/u64/i8/i64/Int/char accessors, datatype, the u64/i64/simple encoder methods, skip models, skip on N=3/4 and on maps with ANY 8-byte length); thorough adds {std}, {half,std}, {half,alloc} with the same small set (+ C12 with half) and the full C03/C04/C05/C06/C01/C07 sets under {} (the full sets under the alloc builds are not claimed: decode::Error carries a String there and c05_datatype_* alone ran > 25 min each); each harness fixes, for every input in its bound, the Ok/Err outcome, the value and the position, "
                  "so builds that all satisfy it agree with each other. minicbor-derive under {alloc} (wrong-tag error class AND position, a round trip, an encoding); minicbor-serde: C17 Serializer/Deserializer harnesses under {} (quick) and {alloc,half}, {std,half} (thorough; without the three harnesses whose error message is built by format! there); {half} is what C17 itself checks",
        "outside": "error MESSAGES (static vs formatted) and error classes beyond Ok/Err where the single-build oracle only requires 'an error'; 32-bit targets and atomic32; the alloc-build skip beyond N=2 (all-strings) / the 8-byte-length family with 0 items",
        "assumptions": ["agreement is derived by transitivity (argument), each build is decided by its own queries"],
        "groups": [
            core({"quick": C20_SMALL + ["c06::c06_a1_n3", "c06::c06_a1_n4", "c06::c06_wide_len_map", "c04::c04_bytes_definite"],
                  "thorough": ["c05::c05_", "c04::c04_", "c03::c03_", "c06::c06_lm", "c06::c06_a1_n", "c06::c06_wide", "::q::c01", "::q::c07"]}, features=(), timeout={"quick": 800, "thorough": 3600}),
            core({"quick": C20_SMALL,
                  "thorough": C20_SMALL + ["c06::c06_a1_n1", "c06::c06_a1_n2", "c06::c06_wide_len_map_0", "c06::c06_wide_len_array_0"]}, features=("alloc",), timeout={"quick": 400, "thorough": 3600}),
            core(C20_SMALL + ["c12::c12_"], features=("half", "std"), tiers=["thorough"]),
            core(C20_SMALL, features=("std",), tiers=["thorough"]),
            core(C20_SMALL + ["c12::c12_"], features=("half", "alloc"), tiers=["thorough"]),
            derive({"quick": ["::q::c09_wrong_tag", "gen::s_tags::q::c09_l0", "gen::s_eplain::q::c08"], "thorough": ["::q::c09_wrong_tag", "gen::s_tags::q::c09_l0", "::q::c08"]}, features=("alloc",), timeout={"quick": 400, "thorough": 3600}),
            serde({"quick": ["c17::c17_ser_u8", "c17::c17_ser_u64", "c17::c17_de_u8", "c17::c17_de_u64", "c17::c17_de_seq_def2", "c17::c17_de_seq_indef2", "c17::c17_de_tuple_len"], "thorough": ["c17::c17_"]}, features=(), timeout={"quick": 400, "thorough": 3600}),
            serde(C17_NO_FMT, features=("half", "alloc"), tiers=["thorough"]),
            serde(C17_NO_FMT, features=("half", "std"), tiers=["thorough"]),
        ],
    },
    "C11": {
        "title": "token streams are faithful",
        "bounds": "one tokenizer step for each initial byte (quick: the 64 structurally distinct ones, thorough: all 256) with 8 symbolic argument bytes + <= 4 payload bytes: "
                  "token value == head's data-model value, bytes consumed == item length, Token::encode == preferred serialisation of the consumed item; errors drain; "
                  "end-of-input inside an item ends the stream (None) and drains; at/beyond the end the same mapping applies to Decoder::datatype's end-of-input (argument); sequences of any length follow by induction over steps (argument, not query)",
        "outside": "string payloads > 4 bytes; the induction over token sequences is an argument; signalling half NaNs (excluded by the statement)",
        "assumptions": ["core::str::from_utf8 over-approximated (validated unstubbed in C04)"],
        "groups": [core({"quick": ["c11_gen::q::", "c11::c11_q_"], "thorough": ["c11_gen::", "c11::c11_"]})],
    },
    "C12": {
        "title": "floats survive bit-exactly; half precision per IEEE 754",
        "bounds": "all 2^32 f32 and 2^64 f64 bit patterns (encode, decode, widening), all 65536 half patterns (decode through f16/f32/f64), "
                  "all 2^32 f32 patterns through Encoder::f16 vs. the IEEE round-to-nearest-even reference; loop-free, no unwind bound",
        "outside": "NaN payload propagation (not in the statement); F16C hardware paths of the half crate (software path is what Kani compiles)",
        "assumptions": ["the half crate's software conversion path is the one compiled (no std feature detection in no_std builds)"],
        "groups": [core(["c12::c12_"])],
    },
    "C13": {
        "title": "bounded sinks",
        "bounds": "for each C01 row: all values x symbolic capacity 0..=len+1 into a &mut [u8] sub-slice with canaries; Ok iff it fits, write error otherwise, prefix left; "
                  "raw write_all sequences (3 calls, symbolic lengths) on each cursor kind; identical bytes in slice / array cursor sinks",
        "outside": "write_all sequences > 3 calls; std::io writers other than the one-byte-per-call scripted one",
        "assumptions": [],
        "groups": [core({"quick": ["::q::c13", "c13::c13_"], "thorough": ["::c13", "c13::c13_"]}),
                   core(["c13::with_std::", "c13::with_alloc::"], features=("half", "std"))],
    },
    "C05": {
        "title": "integer decoding never wraps or truncates",
        "bounds": "input = one CBOR head of 9 fully symbolic bytes with symbolic length 0..=9 (every sign x width x argument, "
                  "every truncation, every non-integer initial byte); Int conversions over all 2^128 / 2^64 values; no loop, no unwind bound needed",
        "outside": "nothing inside the statement's domain on a 64-bit target; 32-bit usize/isize arms are not compiled",
        "assumptions": [],
        "groups": [core(["c05_"])],
    },
}

# scratch / self-test entries (not in MANIFEST): run with --only <filter>
PROPS["ZZ"] = {"title": "driver self-test (must report a VIOLATION)", "groups": [core(["zz_fail_probe"])]}
PROPS["S-core"] = {"title": "scratch: core[half]", "groups": [core(["zz_"])]}
PROPS["S-core-alloc"] = {"title": "scratch: core[half,alloc]", "groups": [core(["zz_"], features=("half", "alloc"))]}
PROPS["S-core-std"] = {"title": "scratch: core[half,std]", "groups": [core(["zz_"], features=("half", "std"))]}
PROPS["S-core-none"] = {"title": "scratch: core[]", "groups": [core(["zz_"], features=())]}
PROPS["S-io"] = {"title": "scratch: io", "groups": [io(["zz_"])]}
PROPS["S-serde-alloc"] = {"title": "scratch: serde alloc", "groups": [serde(["zz_"], features=("half", "alloc"))]}
PROPS["S-serde"] = {"title": "scratch: serde", "groups": [serde(["zz_"])]}
PROPS["S-derive-alloc"] = {"title": "scratch: derive alloc", "groups": [derive(["zz_"], features=("alloc",))]}
PROPS["S-derive"] = {"title": "scratch: derive", "groups": [derive(["zz_"])]}

_NA = {
    "C19": "Display for Tokenizer funnels every token through core::fmt (dyn Write, rt::Argument fn pointers, integer/flt2dec formatting): not encodable within reach of CBMC (14 GB without finishing symex on 2-byte inputs); stubbing fmt would remove the subject. See DESIGN.md section 6.",
}
NOT_APPLICABLE = []
for _i in range(1, 21):
    _id = "C%02d" % _i
    if _id not in PROPS:
        NOT_APPLICABLE.append({"property_id": _id, "reason": _NA.get(_id, "check not registered yet (work in progress; see DESIGN.md section 3)")})
