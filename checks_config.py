"""Which Kani harnesses decide which property, per tier.  Harness naming convention:
cNN_*  = harness of property CNN;  cNN_t_* = thorough tier only (quick filters use cNN_q_ or explicit lists)."""

DEFAULT_TIMEOUT = {"quick": 900, "thorough": 3600}
DEFAULT_MEM_GB = {"quick": 12, "thorough": 24}
DEFAULT_JOBS = {"quick": 12, "thorough": 8}

TRUSTED_BASE = [
    "rustc + Kani 0.68 MIR->goto translation, CBMC 6.11, CaDiCaL",
    "Kani's models of alloc and intrinsics",
    "reference models R1..R8 in /verif/harness/vref (self-tested natively on every run against RFC 8949 Appendix A, core::str and f64 arithmetic)",
]
COMMON_ASSUMPTIONS = [
    "64-bit little-endian host target (x86_64-unknown-linux-gnu); 32-bit cfg arms are not compiled",
    "dev profile semantics (overflow checks on) as modelled by Kani; counterexamples are replayed in dev and release",
]

HOOK_COMMITS = []

_TODO = "check not built yet (work in progress; see DESIGN.md section 3)"
NOT_APPLICABLE = [
    {"property_id": "C19", "reason": "Display for Tokenizer funnels every token through core::fmt (dyn Write, rt::Argument fn pointers, integer/flt2dec formatting): not encodable within reach of CBMC (14 GB without finishing symex on 2-byte inputs); stubbing fmt would remove the subject. See DESIGN.md section 6."},
] + [{"property_id": "C%02d" % i, "reason": _TODO} for i in range(1, 21) if i not in (5, 19)]

CORE_HALF = {"crate": "core", "features": ["half"]}

def core(filters, features=("half",), **kw):
    g = {"crate": "core", "features": list(features), "filters": filters, "zflags": ["stubbing"]}
    g.update(kw)
    return g

PROPS = {
    "ZZ": {"title": "driver self-test (must report a VIOLATION)", "groups": [core(["zz_fail_probe"])]},
    "TY": {"title": "scratch: codec table", "groups": [core(["types::"])]},
    "C05": {
        "title": "integer decoding never wraps or truncates",
        "bounds": "input = one CBOR head of 9 fully symbolic bytes with symbolic length 0..=9 (every sign x width x argument, "
                  "every truncation, every non-integer initial byte); Int conversions over all 2^128 / 2^64 values; no loop, no unwind bound needed",
        "outside": "nothing inside the statement's domain on a 64-bit target; 32-bit usize/isize arms are not compiled",
        "assumptions": [],
        "groups": [core(["c05_"])],
    },
}
