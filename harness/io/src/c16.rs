//! C16 — AsyncWriter delivers whole frames in order under short writes and cancel + sync.
//! ONE inductive step: from an arbitrary state (any buffer, `None` or `WriteFrom(o)`), one
//! `sync()` / `write()` future is created, polled once and dropped; the sink answers every inner
//! write with Pending / a transient error / Ok(0) / Ok(1) / Ok(all offered).  The post-state is
//! again a state of the same family, so poll/drop/sync schedules of any length follow by
//! induction (an argument, stated as such in DESIGN.md).
use crate::models::*;
use futures_io::AsyncWrite;
use minicbor_io::{AsyncWriter, Error};
use std::future::Future;
use std::io;
use std::pin::{pin, Pin};
use std::task::{Context, Poll};

const L: usize = 6;

/// Scripted sink.  At most 2 completed writes per poll (then Pending): a longer poll passes
/// through `WriteFrom` states that are themselves covered as pre-states.
pub struct ASink { pub out: [u8; 12], pub n: usize, pub calls: u8, pub completed: u8, pub saw_zero: bool, pub saw_err: bool, pub saw_pending: bool }

impl ASink { pub fn new() -> Self { ASink { out: [0; 12], n: 0, calls: 0, completed: 0, saw_zero: false, saw_err: false, saw_pending: false } } }

impl AsyncWrite for ASink {
    fn poll_write(mut self: Pin<&mut Self>, _cx: &mut Context<'_>, buf: &[u8]) -> Poll<io::Result<usize>> {
        self.calls += 1;
        let c: u8 = kani::any();
        if self.completed >= 2 || c == 0 { self.saw_pending = true; return Poll::Pending }
        if c == 1 { self.saw_err = true; return Poll::Ready(Err(io::ErrorKind::ConnectionReset.into())) }
        if c == 2 { self.saw_zero = true; return Poll::Ready(Ok(0)) }
        let k = if c == 3 { 1 } else { buf.len() };
        let k = if k > buf.len() { buf.len() } else { k };
        let base = self.n;
        let mut i = 0;
        while i < 10 { if i < k { self.out[base + i] = buf[i]; } i += 1; }
        self.n += k;
        self.completed += 1;
        Poll::Ready(Ok(k))
    }
    fn poll_flush(self: Pin<&mut Self>, _cx: &mut Context<'_>) -> Poll<io::Result<()>> { Poll::Ready(Ok(())) }
    fn poll_close(self: Pin<&mut Self>, _cx: &mut Context<'_>) -> Poll<io::Result<()>> { Poll::Ready(Ok(())) }
}

#[kani::proof]
#[kani::unwind(12)]
pub fn c16_sync_one_poll_from_any_state() {
    let content: [u8; L] = kani::any();
    let mut buffer = Vec::with_capacity(8);
    let mut i = 0;
    while i < L { buffer.push(content[i]); i += 1; }
    let idle: bool = kani::any();
    let o: usize = kani::any();
    kani::assume(o <= L);
    let mut w = AsyncWriter::__verif_from_parts(ASink::new(), buffer, 512, if idle { None } else { Some(o) });
    let waker = noop_waker();
    let mut cx = Context::from_waker(&waker);
    let res = {
        let fut = pin!(w.sync());
        fut.poll(&mut cx)
        // the future is dropped here (cancellation)
    };
    let post = w.__verif_state();
    let s = w.writer();
    let n = s.n;
    if idle {
        assert!(s.calls == 0 && n == 0, "sync on an idle writer wrote something");
        assert!(matches!(res, Poll::Ready(Ok(()))) && post.is_none());
    } else {
        // exactly buffer[o .. o+n], in order
        assert!(o + n <= L, "more bytes reached the sink than the buffer holds");
        let mut i = 0;
        while i < L { if i < n { assert!(s.out[i] == content[o + i], "sink received other bytes than buffer[o..o+n]"); } i += 1; }
        match &res {
            Poll::Pending => {
                assert!(s.saw_pending);
                assert!(post == Some(o + n), "bytes accepted before a Pending are not committed to the state");
            }
            Poll::Ready(Ok(())) => {
                assert!(o + n == L, "sync completed before the whole buffer was delivered");
                assert!(post.is_none(), "state not reset after completion");
            }
            Poll::Ready(Err(Error::Io(e))) => {
                if s.saw_zero { assert!(e.kind() == io::ErrorKind::WriteZero, "sink accepted 0 bytes: not a write-zero error") }
                else { assert!(s.saw_err && e.kind() == io::ErrorKind::ConnectionReset, "an error the sink never produced") }
                assert!(post == Some(o + n), "bytes accepted before the error are not committed to the state");
            }
            Poll::Ready(Err(_)) => assert!(false, "unexpected error class"),
        }
        if s.saw_zero { assert!(matches!(res, Poll::Ready(Err(_)))) }
        if s.saw_err { assert!(matches!(res, Poll::Ready(Err(_)))) }
    }
    kani::cover!(!idle && o == 0 && n == L && matches!(res, Poll::Ready(Ok(()))), "a whole frame delivered in one poll");
    kani::cover!(!idle && n == 2 && matches!(res, Poll::Pending), "two one-byte writes then Pending");
    kani::cover!(!idle && o == L, "nothing left to write");
    core::mem::forget(w);
}

/// `write()` from the idle state: one poll.  Whatever the sink does, the bytes that reached it
/// are a prefix of the frame `len_be32 ++ encoding`, the state accounts for them, and a
/// completed write returns the payload length.
#[kani::proof]
#[kani::unwind(12)]
#[kani::stub(std::vec::Vec::resize, crate::models::vec_resize)]
#[kani::stub(std::vec::Vec::extend_from_slice, crate::models::vec_extend_from_slice)]
#[kani::stub(minicbor::encode::Error::write, crate::models::encode_error_write_unreachable)]
pub fn c16_write_one_poll_from_idle() {
    let v: (u8, bool) = kani::any();
    let max: u32 = kani::any();
    kani::assume(max <= 5);
    let mut w = AsyncWriter::with_buffer(ASink::new(), Vec::with_capacity(8));
    w.set_max_len(max);
    let waker = noop_waker();
    let mut cx = Context::from_waker(&waker);
    let res = {
        let fut = pin!(w.write(&v));
        fut.poll(&mut cx)
    };
    let plen: usize = 1 + (if v.0 < 24 { 1 } else { 2 }) + 1;
    let mut frame = [0u8; 8];
    frame[3] = plen as u8;
    frame[4] = 0x82;
    if v.0 < 24 { frame[5] = v.0; frame[6] = if v.1 { 0xf5 } else { 0xf4 } } else { frame[5] = 0x18; frame[6] = v.0; frame[7] = if v.1 { 0xf5 } else { 0xf4 } }
    let post = w.__verif_state();
    let s = w.writer();
    if plen > max as usize {
        assert!(matches!(res, Poll::Ready(Err(Error::InvalidLen))), "frame above max_len not refused");
        assert!(s.calls == 0 && s.n == 0, "bytes of a refused frame were offered to the sink");
        assert!(post.is_none(), "state changed by a refused write");
    } else {
        assert!(s.n <= 4 + plen);
        let mut i = 0;
        while i < 8 { if i < s.n { assert!(s.out[i] == frame[i], "sink received something else than a prefix of the frame"); } i += 1; }
        match &res {
            Poll::Ready(Ok(k)) => { assert!(*k == plen, "completed write does not report the payload length"); assert!(s.n == 4 + plen && post.is_none()) }
            Poll::Pending => {
                assert!(post == Some(s.n));
                let b = w.__verif_buffer();
                assert!(b.len() == 4 + plen);
                let mut i = 0;
                while i < 8 { if i < 4 + plen { assert!(b[i] == frame[i], "pending frame in the buffer is not the frame of the value"); } i += 1; }
            }
            Poll::Ready(Err(Error::Io(_))) => assert!(post == Some(s.n)),
            Poll::Ready(Err(_)) => assert!(false),
        }
    }
    kani::cover!(matches!(res, Poll::Ready(Ok(4))));
    kani::cover!(matches!(res, Poll::Pending) && s.n == 0, "Pending before any byte was accepted");
    core::mem::forget(w);
}

/// A value whose Encode impl fails: nothing is offered to the sink, state unchanged.
pub struct Failing;
impl<C> minicbor::Encode<C> for Failing {
    fn encode<W: minicbor::encode::Write>(&self, e: &mut minicbor::Encoder<W>, _: &mut C) -> Result<(), minicbor::encode::Error<W::Error>> {
        e.u8(1)?;
        Err(minicbor::encode::Error::message("no"))
    }
}

#[kani::proof]
#[kani::unwind(12)]
#[kani::stub(std::vec::Vec::resize, crate::models::vec_resize)]
#[kani::stub(std::vec::Vec::extend_from_slice, crate::models::vec_extend_from_slice)]
#[kani::stub(minicbor::encode::Error::write, crate::models::encode_error_write_unreachable)]
pub fn c16_encode_failure_puts_nothing_into_the_sink() {
    let mut w = AsyncWriter::with_buffer(ASink::new(), Vec::with_capacity(8));
    let waker = noop_waker();
    let mut cx = Context::from_waker(&waker);
    let res = {
        let fut = pin!(w.write(Failing));
        fut.poll(&mut cx)
    };
    assert!(matches!(res, Poll::Ready(Err(Error::Encode(_)))));
    assert!(w.writer().calls == 0 && w.writer().n == 0, "a value that failed to encode reached the sink");
    assert!(w.__verif_state().is_none());
    core::mem::forget(res);
    core::mem::forget(w);
}
