//! Kani harnesses over the real minicbor-io crate (C14 blocking framed I/O, C15 AsyncReader,
//! C16 AsyncWriter).  The async state machines are checked by ONE inductive poll from an
//! arbitrary state built through the `cfg(minicbor_verif)` hooks.
#![feature(allocator_api)]
#![allow(unused_imports, dead_code, clippy::all)]
#![recursion_limit = "512"]

#[cfg(kani)]
pub mod models;
#[cfg(kani)]
pub mod c14;
#[cfg(kani)]
pub mod c16;
#[cfg(kani)]
pub mod c15;
#[cfg(kani)]
mod replay;
