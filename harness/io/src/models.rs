//! Fixed-capacity models of std's Vec growth paths (std code, not minicbor's): symbolic-size
//! allocation is what makes CBMC's encoding explode, so buffers are pre-sized and the growth
//! functions are replaced by models that ASSERT `new_len <= capacity` (which doubles as the
//! "never allocates more than the configured maximum" clause) and write inside the capacity.
use std::alloc::Allocator;

pub fn vec_resize<T: Clone, A: Allocator>(v: &mut Vec<T, A>, new_len: usize, value: T) {
    assert!(new_len <= v.capacity(), "growth model: Vec::resize beyond the pre-sized capacity");
    let old = v.len();
    unsafe {
        let p = v.as_mut_ptr();
        let mut i = old;
        while i < new_len { p.add(i).write(value.clone()); i += 1; }
        v.set_len(new_len);
    }
}

pub fn vec_extend_from_slice<T: Clone, A: Allocator>(v: &mut Vec<T, A>, other: &[T]) {
    let old = v.len();
    assert!(old + other.len() <= v.capacity(), "growth model: Vec::extend_from_slice beyond the pre-sized capacity");
    unsafe {
        let p = v.as_mut_ptr();
        let mut i = 0;
        while i < other.len() { p.add(old + i).write(other[i].clone()); i += 1; }
        v.set_len(old + other.len());
    }
}

/// see harness/core/src/util.rs: Kani ICE work-around for infallible sinks
pub fn encode_error_write_unreachable<E>(_e: E) -> minicbor::encode::Error<E> {
    assert!(false, "encode::Error::write reached for an infallible sink");
    kani::assume(false);
    loop {}
}

/// A waker that does nothing (one poll per harness; wake-ups are not the subject).
pub fn noop_waker() -> std::task::Waker {
    use std::task::{RawWaker, RawWakerVTable, Waker};
    fn clone(_: *const ()) -> RawWaker { RawWaker::new(std::ptr::null(), &VT) }
    fn noop(_: *const ()) {}
    static VT: RawWakerVTable = RawWakerVTable::new(clone, noop, noop, noop);
    unsafe { Waker::from_raw(RawWaker::new(std::ptr::null(), &VT)) }
}
