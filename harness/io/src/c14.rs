//! C14 — blocking framed I/O round-trips under any fragmentation and detects truncation.
use crate::models::*;
use minicbor_io::{Error, Reader, Writer};
use std::io;

const S: usize = 12;

/// Scripted `io::Read`: the stream is `data[..end]`; every call returns 1 byte or up to 4
/// (clipped to what is offered and what is left), or `Interrupted` (at most `intr` times);
/// after `end` it reports end-of-stream.  Every choice is symbolic.
pub struct Src { pub data: [u8; S], pub end: usize, pub pos: usize, pub intr: u8, pub calls: u8 }

impl io::Read for Src {
    fn read(&mut self, buf: &mut [u8]) -> io::Result<usize> {
        self.calls += 1;
        if self.intr > 0 && kani::any() {
            self.intr -= 1;
            return Err(io::ErrorKind::Interrupted.into());
        }
        let rem = self.end - self.pos;
        let want: usize = if kani::any() { 1 } else { 4 };
        let mut n = want;
        if n > rem { n = rem }
        if n > buf.len() { n = buf.len() }
        let mut i = 0;
        while i < 4 { if i < n { buf[i] = self.data[self.pos + i]; } i += 1; }
        self.pos += n;
        Ok(n)
    }
}

/// One frame `00 00 00 02 18 x` (a u8 payload) followed by a second frame `00 00 00 01 y`
/// (y < 24), cut at a symbolic point `end`: every split into short reads, up to 2 interrupted
/// calls, every truncation point.
#[kani::proof]
#[kani::unwind(8)]
#[kani::stub(std::vec::Vec::resize, crate::models::vec_resize)]
pub fn c14_reader_one_frame_fragmented() {
    let x: u8 = kani::any();
    let data = [0, 0, 0, 2, 0x18, x, 0, 0, 0, 1, 0x05, 0];
    let end: usize = kani::any();
    kani::assume(end <= 6);
    let intr: u8 = kani::any();
    kani::assume(intr <= 2);
    let src = Src { data, end, pos: 0, intr, calls: 0 };
    let mut r = Reader::with_buffer(src, Vec::with_capacity(8));
    r.set_max_len(8);
    let res: Result<Option<u8>, Error> = r.read();
    match res {
        Ok(Some(v)) => {
            assert!(end == 6, "a value was produced from a truncated frame");
            assert!(v == x, "value differs from what was written");
            assert!(r.reader().pos == 6, "reader consumed a different number of bytes than the frame has");
        }
        Ok(None) => assert!(end == 0, "clean end reported although bytes of a frame had arrived"),
        Err(Error::Io(e)) => {
            assert!(end > 0 && end < 6, "i/o error on a complete frame or on an empty stream");
            assert!(e.kind() == io::ErrorKind::UnexpectedEof, "truncated frame: not an unexpected-eof error");
        }
        Err(_) => assert!(false, "unexpected error class"),
    }
    kani::cover!(end == 6 && r.reader().calls >= 6, "frame delivered byte by byte");
    kani::cover!(end == 3);
    kani::cover!(end == 5);
    core::mem::forget(r);
}

/// Second frame after the first: values arrive in order, then a clean end.
#[kani::proof]
#[kani::unwind(8)]
#[kani::stub(std::vec::Vec::resize, crate::models::vec_resize)]
pub fn c14_t_reader_two_frames_then_end() {
    let x: u8 = kani::any();
    let y: u8 = kani::any();
    kani::assume(y < 24);
    let data = [0, 0, 0, 2, 0x18, x, 0, 0, 0, 1, y, 0];
    let src = Src { data, end: 11, pos: 0, intr: 1, calls: 0 };
    let mut r = Reader::with_buffer(src, Vec::with_capacity(8));
    r.set_max_len(8);
    let a: Result<Option<u8>, Error> = r.read();
    assert!(matches!(a, Ok(Some(v)) if v == x));
    let b: Result<Option<u8>, Error> = r.read();
    assert!(matches!(b, Ok(Some(v)) if v == y));
    let c: Result<Option<u8>, Error> = r.read();
    assert!(matches!(c, Ok(None)), "no clean end after the last frame");
    assert!(r.reader().pos == 11);
    core::mem::forget(r);
}

/// A frame whose payload does not decode (a text head where a u8 is expected) yields a
/// Decode error and does not desynchronise the frame after it.
#[kani::proof]
#[kani::unwind(8)]
#[kani::stub(std::vec::Vec::resize, crate::models::vec_resize)]
pub fn c14_undecodable_frame_does_not_desync() {
    let bad: u8 = kani::any();
    kani::assume(bad >= 0x40 && bad != 0xf6);
    let y: u8 = kani::any();
    kani::assume(y < 24);
    let data = [0, 0, 0, 2, bad, 0x00, 0, 0, 0, 1, y, 0];
    let src = Src { data, end: 11, pos: 0, intr: 0, calls: 0 };
    let mut r = Reader::with_buffer(src, Vec::with_capacity(8));
    r.set_max_len(8);
    let a: Result<Option<u8>, Error> = r.read();
    assert!(matches!(a, Err(Error::Decode(_))), "undecodable payload did not give a decode error");
    assert!(r.reader().pos == 6, "undecodable frame was not consumed whole");
    let b: Result<Option<u8>, Error> = r.read();
    assert!(matches!(b, Ok(Some(v)) if v == y), "frame after an undecodable one was not read correctly");
    core::mem::forget(r);
}

/// max_len: a declared length above the maximum is refused before anything is allocated
/// (the growth model asserts new_len <= capacity == max_len).
#[kani::proof]
#[kani::unwind(8)]
#[kani::stub(std::vec::Vec::resize, crate::models::vec_resize)]
pub fn c14_reader_max_len() {
    let l: [u8; 4] = kani::any();
    let max: u32 = kani::any();
    kani::assume(max <= 4);
    let data = [l[0], l[1], l[2], l[3], 0x01, 0x01, 0x01, 0x01, 0x01, 0, 0, 0];
    let src = Src { data, end: 9, pos: 0, intr: 0, calls: 0 };
    let mut r = Reader::with_buffer(src, Vec::with_capacity(4));
    r.set_max_len(max);
    let a: Result<Option<u8>, Error> = r.read();
    let declared = u32::from_be_bytes(l);
    kani::cover!(declared == max + 1);
    kani::cover!(declared == max && max == 4);
    if declared > max {
        assert!(matches!(a, Err(Error::InvalidLen)), "frame larger than max_len not refused");
        assert!(r.reader().pos == 4, "payload bytes consumed although the frame was refused");
        drop(a);
        let (_src, buf) = r.into_parts();
        assert!(buf.len() <= max as usize && buf.capacity() <= 4, "the reader sized its buffer for a frame above max_len");
        core::mem::forget(buf);
        return;
    } else {
        assert!(!matches!(a, Err(Error::InvalidLen)));
    }
    core::mem::forget(r);
}

/// Scripted `io::Write`: accepts 1 byte or everything offered per call.
pub struct Sink { pub out: [u8; S], pub n: usize, pub calls: u8 }
impl io::Write for Sink {
    fn write(&mut self, buf: &[u8]) -> io::Result<usize> {
        self.calls += 1;
        let k = if kani::any() { 1 } else { buf.len() };
        let mut i = 0;
        while i < 8 { if i < k { self.out[self.n + i] = buf[i]; } i += 1; }
        self.n += k;
        Ok(k)
    }
    fn flush(&mut self) -> io::Result<()> { Ok(()) }
}

/// Writer: frame = 4-byte big-endian length ++ payload, returns the payload length, under short
/// writes; a payload above max_len is refused and nothing reaches the sink.
#[kani::proof]
#[kani::unwind(10)]
#[kani::stub(std::vec::Vec::resize, crate::models::vec_resize)]
#[kani::stub(std::vec::Vec::extend_from_slice, crate::models::vec_extend_from_slice)]
#[kani::stub(minicbor::encode::Error::write, crate::models::encode_error_write_unreachable)]
pub fn c14_writer_frame_format() {
    let v: (u8, bool) = kani::any();
    let max: u32 = kani::any();
    kani::assume(max <= 5);
    let mut w = Writer::with_buffer(Sink { out: [0; S], n: 0, calls: 0 }, Vec::with_capacity(8));
    w.set_max_len(max);
    let r = w.write(&v);
    let plen: usize = 1 + (if v.0 < 24 { 1 } else { 2 }) + 1;
    match r {
        Ok(n) => {
            assert!(plen <= max as usize, "frame larger than max_len was written");
            assert!(n == plen, "returned length is not the payload length");
            let s = w.writer();
            assert!(s.n == 4 + plen, "sink received a different number of bytes");
            assert!(s.out[0] == 0 && s.out[1] == 0 && s.out[2] == 0 && s.out[3] == plen as u8, "length prefix wrong");
            assert!(s.out[4] == 0x82);
            if v.0 < 24 { assert!(s.out[5] == v.0 && s.out[6] == if v.1 { 0xf5 } else { 0xf4 }) }
            else { assert!(s.out[5] == 0x18 && s.out[6] == v.0 && s.out[7] == if v.1 { 0xf5 } else { 0xf4 }) }
        }
        Err(Error::InvalidLen) => {
            assert!(plen > max as usize, "frame within max_len refused");
            assert!(w.writer().n == 0, "bytes of a refused frame reached the sink");
        }
        Err(_) => assert!(false, "unexpected error"),
    }
    kani::cover!(matches!(r, Ok(4)) && w.writer().calls >= 8, "frame written byte by byte");
    kani::cover!(plen == max as usize + 1);
    core::mem::forget(w);
}

/// A refused frame (above max_len) does not poison the writer: the next, acceptable value is
/// written as a correct frame of its own and nothing of the refused one reaches the sink.
#[kani::proof]
#[kani::unwind(10)]
#[kani::stub(std::vec::Vec::resize, crate::models::vec_resize)]
#[kani::stub(std::vec::Vec::extend_from_slice, crate::models::vec_extend_from_slice)]
#[kani::stub(minicbor::encode::Error::write, crate::models::encode_error_write_unreachable)]
pub fn c14_writer_refused_frame_then_good_frame() {
    let big: (u8, bool) = kani::any();
    let y: u8 = kani::any();
    kani::assume(y < 24);
    let mut w = Writer::with_buffer(Sink { out: [0; S], n: 0, calls: 0 }, Vec::with_capacity(8));
    w.set_max_len(2);
    let r1 = w.write(&big);
    assert!(matches!(r1, Err(Error::InvalidLen)), "a 3- or 4-byte payload must be refused with max_len = 2");
    assert!(w.writer().n == 0);
    let r2 = w.write(&y);
    assert!(matches!(r2, Ok(1)), "an acceptable frame after a refused one was not written correctly");
    let s = w.writer();
    assert!(s.n == 5 && s.out[0] == 0 && s.out[1] == 0 && s.out[2] == 0 && s.out[3] == 1 && s.out[4] == y, "second frame is not `00 00 00 01 y`");
    core::mem::forget(w);
}
