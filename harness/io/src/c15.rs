pub fn placeholder() {}
