//! C15 — AsyncReader is cancellation-safe: no frame lost, duplicated or torn.
//! ONE inductive step: from an arbitrary reader state satisfying the representation invariant
//! Inv (built through the cfg(minicbor_verif) hook), one `read()` future is created, polled once
//! and dropped.  Inv: the state accounts for exactly the bytes taken from the source —
//!   ReadLen(b, o): o <= 4, b[..o] == the first o prefix bytes of the current frame, source at o;
//!   ReadVal(o):    buffer.len() == declared length, buffer[..o] == first o payload bytes, source at 4+o.
//! Post: a returned value is the frame's value with the source exactly behind the frame and a
//! fresh state; on Pending / transient error Inv holds again (nothing lost, duplicated, torn);
//! EOF inside the frame is UnexpectedEof, never a value; clean end only at a frame boundary.
use crate::models::*;
use futures_io::AsyncRead;
use minicbor_io::{AsyncReader, Error};
use std::future::Future;
use std::io;
use std::pin::{pin, Pin};
use std::task::{Context, Poll};

const S: usize = 8;

/// The "value" read from a frame is the payload itself (length and bytes): decoding CBOR out of
/// the payload is C04's subject; what C15 is about is that the payload arrives whole.
#[derive(Debug, Clone, Copy, PartialEq, Eq)]
pub struct Raw { len: usize, b0: u8, b1: u8 }
impl<'b, C> minicbor::Decode<'b, C> for Raw {
    fn decode(d: &mut minicbor::Decoder<'b>, _: &mut C) -> Result<Self, minicbor::decode::Error> {
        let i = d.input();
        Ok(Raw { len: i.len(), b0: if i.len() > 0 { i[0] } else { 0 }, b1: if i.len() > 1 { i[1] } else { 0 } })
    }
}

/// `script`: None = every outcome symbolic; Some(s) = the i-th poll_read call has the CONCRETE outcome
/// s[i] (0 Pending, 1 transient error, 2 one byte, 3 as many bytes as fit (<= 4), 4 the stream ends here),
/// calls beyond the script are Pending.
pub struct ASrc { pub data: [u8; S], pub end: usize, pub pos: usize, pub max_reads: u8, pub completed: u8, pub saw_err: bool, pub saw_eof: bool, pub saw_pending: bool,
                  pub script: Option<[u8; 3]>, pub calls: u8 }

impl AsyncRead for ASrc {
    fn poll_read(mut self: Pin<&mut Self>, _cx: &mut Context<'_>, buf: &mut [u8]) -> Poll<io::Result<usize>> {
        let c: u8 = match self.script {
            None => kani::any(),
            Some(sc) => { let i = self.calls as usize; self.calls += 1; if i < 3 { sc[i] } else { 0 } }
        };
        if self.script.is_some() && c == 4 { self.end = self.pos }
        if self.completed >= self.max_reads || c == 0 { self.saw_pending = true; return Poll::Pending }
        if c == 1 { self.saw_err = true; return Poll::Ready(Err(io::ErrorKind::ConnectionReset.into())) }
        let rem = self.end - self.pos;
        if rem == 0 { self.saw_eof = true; return Poll::Ready(Ok(0)) }
        let mut k: usize = if c == 2 { 1 } else { 4 };
        if k > rem { k = rem }
        if k > buf.len() { k = buf.len() }
        let base = self.pos;
        let mut i = 0;
        while i < 4 { if i < k { buf[i] = self.data[base + i]; } i += 1; }
        self.pos += k;
        self.completed += 1;
        Poll::Ready(Ok(k))
    }
}

/// The representation invariant for the frame `00 00 00 02 18 x` at stream offset 0.
fn inv(read_val: bool, lenb: &[u8; 4], o: usize, buffer: &[u8], data: &[u8; S], srcpos: usize) -> bool {
    if !read_val {
        if o > 4 || srcpos != o { return false }
        let mut i = 0;
        while i < 4 { if i < o && lenb[i] != data[i] { return false } i += 1; }
        true
    } else {
        if buffer.len() != 2 || o > 2 || srcpos != 4 + o { return false }
        let mut i = 0;
        while i < 2 { if i < o && buffer[i] != data[4 + i] { return false } i += 1; }
        true
    }
}

/// One poll + drop from the Inv pre-state (`READ_VAL`, `O`): the state family and offset are fixed per
/// harness (nine harnesses cover every Inv state), everything else is symbolic.
fn step<const READ_VAL: bool, const O: usize, const READS: u8>() { step_core::<READ_VAL, O, READS>(None) }

fn step_core<const READ_VAL: bool, const O: usize, const READS: u8>(script: Option<[u8; 3]>) {
    let p: [u8; 2] = kani::any();
    let data: [u8; S] = [0, 0, 0, 2, p[0], p[1], 0, 0];
    // arbitrary pre-state satisfying Inv
    let read_val: bool = READ_VAL;
    let o: usize = O;
    let junk: [u8; 4] = kani::any();
    let mut lenb = [0u8; 4];
    let mut buffer: Vec<u8> = Vec::with_capacity(4);
    let srcpos;
    if !read_val {
        let mut i = 0;
        while i < 4 { lenb[i] = if i < o { data[i] } else { junk[i] }; i += 1; }
        srcpos = o;
        // the buffer still holds whatever the previous frame left there (here: 2 bytes)
        buffer.push(junk[0]);
        buffer.push(junk[1]);
    } else {
        let mut i = 0;
        while i < 2 { buffer.push(if i < o { data[4 + i] } else { junk[i] }); i += 1; }
        srcpos = 4 + o;
    }
    let end: usize = if script.is_some() { 6 } else { kani::any() };
    kani::assume(end >= srcpos && end <= 6);
    let src = ASrc { data, end, pos: srcpos, max_reads: READS, completed: 0, saw_err: false, saw_eof: false, saw_pending: false, script, calls: 0 };
    let mut r = AsyncReader::__verif_from_parts(src, buffer, 4, read_val, lenb, o);
    let waker = noop_waker();
    let mut cx = Context::from_waker(&waker);
    let res: Poll<Result<Option<Raw>, Error>> = {
        let fut = pin!(r.read::<Raw>());
        fut.poll(&mut cx)
        // dropped here: cancellation
    };
    let (post_rv, post_lenb, post_o) = r.__verif_state();
    let spos = r.reader().pos;
    let end = r.reader().end;
    match &res {
        Poll::Ready(Ok(Some(v))) => {
            assert!(v.len == 2 && v.b0 == p[0] && v.b1 == p[1], "returned payload is not the frame's payload (torn / duplicated bytes)");
            assert!(spos == 6, "source not exactly behind the frame after a value was returned");
            assert!(!post_rv && post_o == 0, "state not reset to a fresh ReadLen after a frame");
        }
        Poll::Ready(Ok(None)) => {
            assert!(!read_val && o == 0 && srcpos == end, "clean end reported inside a frame or before the stream ended");
            assert!(spos == srcpos);
        }
        Poll::Ready(Err(Error::Io(e))) => {
            if r.reader().saw_err {
                assert!(e.kind() == io::ErrorKind::ConnectionReset);
                assert!(inv(post_rv, &post_lenb, post_o, r.__verif_buffer(), &data, spos), "Inv broken after a transient error: reading cannot resume where it left off");
            } else {
                assert!(r.reader().saw_eof && e.kind() == io::ErrorKind::UnexpectedEof, "an i/o error the source never produced");
                assert!(spos == end && end < 6 && end > 0, "unexpected-eof although the frame was complete or the stream empty");
            }
        }
        Poll::Ready(Err(_)) => assert!(false, "decode / length error on a valid frame"),
        Poll::Pending => {
            assert!(r.reader().saw_pending);
            assert!(inv(post_rv, &post_lenb, post_o, r.__verif_buffer(), &data, spos), "Inv broken after Pending + drop: bytes lost, duplicated or torn");
        }
    }
    // a transient error is reported exactly when the source produced one
    if r.reader().saw_err { assert!(matches!(res, Poll::Ready(Err(Error::Io(_))))) }
    // (disjunctions, not branches: a cover in a branch the concrete script folds away is reported unreachable)
    kani::cover!(script.is_some() || matches!(res, Poll::Ready(Ok(Some(_)))) || (READS < 2 && !(READ_VAL && O >= 1)), "the frame can be completed from this state");
    kani::cover!(script.is_some() || matches!(res, Poll::Pending) || (READ_VAL && O == 2), "Pending reachable (except when the frame is already complete)");
    kani::cover!(script.is_none() || r.reader().calls >= 1, "the scripted source is read at least once");
    core::mem::forget(r);
}

macro_rules! step_h { ($uw:expr; $($name:ident $rv:expr, $o:expr, $reads:expr);*) => { $(
    #[kani::proof]
    #[kani::unwind($uw)]
    #[kani::stub(std::vec::Vec::resize, crate::models::vec_resize)]
    pub fn $name() { step::<$rv, $o, $reads>() } )* } }
// quick tier: at most ONE completed source read per poll (every Inv state is still a pre-state, so the
// induction covers schedules of any length; a poll that completes two reads passes through a covered state)
step_h!(6; c15_q_step_readlen_0 false, 0, 1; c15_q_step_readlen_1 false, 1, 1; c15_q_step_readlen_2 false, 2, 1; c15_q_step_readlen_3 false, 3, 1;
        c15_q_step_readlen_4 false, 4, 1; c15_q_step_readval_0 true, 0, 1; c15_q_step_readval_1 true, 1, 1; c15_q_step_readval_2 true, 2, 1);
// thorough tier: up to TWO completed reads per poll
step_h!(7; c15_t_step_readlen_0 false, 0, 2; c15_t_step_readlen_1 false, 1, 2; c15_t_step_readlen_2 false, 2, 2; c15_t_step_readlen_3 false, 3, 2;
        c15_t_step_readlen_4 false, 4, 2; c15_t_step_readval_0 true, 0, 2; c15_t_step_readval_1 true, 1, 2; c15_t_step_readval_2 true, 2, 2);

macro_rules! step_s { ($($name:ident $rv:expr, $o:expr, $sc:expr);*) => { $(
    #[kani::proof]
    #[kani::unwind(6)]
    #[kani::stub(std::vec::Vec::resize, crate::models::vec_resize)]
    pub fn $name() { step_core::<$rv, $o, 3>(Some($sc)) } )* } }
// Scripted source: every read outcome of the poll is CONCRETE (payload and stale bytes stay symbolic), so the
// control flow folds and a poll may complete up to three reads.  quick: 4 (state, script) pairs where progress
// made inside one poll is followed by an interruption; thorough: every [data, x] script from every state and
// the one-byte-at-a-time scripts [k1, k1, x].
step_s!(c15_t_s_rl0_k1_p false, 0, [2, 0, 0];
        c15_t_s_rl2_kx_e false, 2, [3, 1, 0];
        c15_t_s_rl3_k1_p false, 3, [2, 0, 0];
        c15_q_s_rl3_kx_e false, 3, [3, 1, 0];
        c15_t_s_rl4_k1_p false, 4, [2, 0, 0];
        c15_q_s_rv0_k1_p true, 0, [2, 0, 0];
        c15_q_s_rv0_k1_e true, 0, [2, 1, 0];
        c15_q_s_rv1_k1_z true, 1, [2, 4, 0]);
step_s!(c15_t_s_rl0_k1_e false, 0, [2, 1, 0];
        c15_t_s_rl0_k1_k1 false, 0, [2, 2, 0];
        c15_t_s_rl0_k1_kx false, 0, [2, 3, 0];
        c15_t_s_rl0_k1_z false, 0, [2, 4, 0];
        c15_t_s_rl0_kx_p false, 0, [3, 0, 0];
        c15_t_s_rl0_kx_e false, 0, [3, 1, 0];
        c15_t_s_rl0_kx_k1 false, 0, [3, 2, 0];
        c15_t_s_rl0_kx_kx false, 0, [3, 3, 0];
        c15_t_s_rl0_kx_z false, 0, [3, 4, 0];
        c15_t_s_rl1_k1_p false, 1, [2, 0, 0];
        c15_t_s_rl1_k1_e false, 1, [2, 1, 0];
        c15_t_s_rl1_k1_k1 false, 1, [2, 2, 0];
        c15_t_s_rl1_k1_kx false, 1, [2, 3, 0];
        c15_t_s_rl1_k1_z false, 1, [2, 4, 0];
        c15_t_s_rl1_kx_p false, 1, [3, 0, 0];
        c15_t_s_rl1_kx_e false, 1, [3, 1, 0];
        c15_t_s_rl1_kx_k1 false, 1, [3, 2, 0];
        c15_t_s_rl1_kx_kx false, 1, [3, 3, 0];
        c15_t_s_rl1_kx_z false, 1, [3, 4, 0];
        c15_t_s_rl2_k1_p false, 2, [2, 0, 0];
        c15_t_s_rl2_k1_e false, 2, [2, 1, 0];
        c15_t_s_rl2_k1_k1 false, 2, [2, 2, 0];
        c15_t_s_rl2_k1_kx false, 2, [2, 3, 0];
        c15_t_s_rl2_k1_z false, 2, [2, 4, 0];
        c15_t_s_rl2_kx_p false, 2, [3, 0, 0];
        c15_t_s_rl2_kx_k1 false, 2, [3, 2, 0];
        c15_t_s_rl2_kx_kx false, 2, [3, 3, 0];
        c15_t_s_rl2_kx_z false, 2, [3, 4, 0];
        c15_t_s_rl3_k1_e false, 3, [2, 1, 0];
        c15_t_s_rl3_k1_k1 false, 3, [2, 2, 0];
        c15_t_s_rl3_k1_kx false, 3, [2, 3, 0];
        c15_t_s_rl3_k1_z false, 3, [2, 4, 0];
        c15_t_s_rl3_kx_p false, 3, [3, 0, 0];
        c15_t_s_rl3_kx_k1 false, 3, [3, 2, 0];
        c15_t_s_rl3_kx_kx false, 3, [3, 3, 0];
        c15_t_s_rl3_kx_z false, 3, [3, 4, 0];
        c15_t_s_rl4_k1_e false, 4, [2, 1, 0];
        c15_t_s_rl4_k1_k1 false, 4, [2, 2, 0];
        c15_t_s_rl4_k1_kx false, 4, [2, 3, 0];
        c15_t_s_rl4_k1_z false, 4, [2, 4, 0];
        c15_t_s_rl4_kx_p false, 4, [3, 0, 0];
        c15_t_s_rl4_kx_e false, 4, [3, 1, 0];
        c15_t_s_rl4_kx_k1 false, 4, [3, 2, 0];
        c15_t_s_rl4_kx_kx false, 4, [3, 3, 0];
        c15_t_s_rl4_kx_z false, 4, [3, 4, 0];
        c15_t_s_rv0_k1_k1 true, 0, [2, 2, 0];
        c15_t_s_rv0_k1_kx true, 0, [2, 3, 0];
        c15_t_s_rv0_k1_z true, 0, [2, 4, 0];
        c15_t_s_rv0_kx_p true, 0, [3, 0, 0];
        c15_t_s_rv0_kx_e true, 0, [3, 1, 0];
        c15_t_s_rv0_kx_k1 true, 0, [3, 2, 0];
        c15_t_s_rv0_kx_kx true, 0, [3, 3, 0];
        c15_t_s_rv0_kx_z true, 0, [3, 4, 0];
        c15_t_s_rv1_k1_p true, 1, [2, 0, 0];
        c15_t_s_rv1_k1_e true, 1, [2, 1, 0];
        c15_t_s_rv1_k1_k1 true, 1, [2, 2, 0];
        c15_t_s_rv1_k1_kx true, 1, [2, 3, 0];
        c15_t_s_rv1_kx_p true, 1, [3, 0, 0];
        c15_t_s_rv1_kx_e true, 1, [3, 1, 0];
        c15_t_s_rv1_kx_k1 true, 1, [3, 2, 0];
        c15_t_s_rv1_kx_kx true, 1, [3, 3, 0];
        c15_t_s_rv1_kx_z true, 1, [3, 4, 0];
        c15_t_s_rl0_k1_k1_p false, 0, [2, 2, 0];
        c15_t_s_rl0_k1_k1_e false, 0, [2, 2, 1];
        c15_t_s_rl0_k1_k1_k1 false, 0, [2, 2, 2];
        c15_t_s_rl0_k1_k1_z false, 0, [2, 2, 4];
        c15_t_s_rl1_k1_k1_p false, 1, [2, 2, 0];
        c15_t_s_rl1_k1_k1_e false, 1, [2, 2, 1];
        c15_t_s_rl1_k1_k1_k1 false, 1, [2, 2, 2];
        c15_t_s_rl1_k1_k1_z false, 1, [2, 2, 4];
        c15_t_s_rl2_k1_k1_p false, 2, [2, 2, 0];
        c15_t_s_rl2_k1_k1_e false, 2, [2, 2, 1];
        c15_t_s_rl2_k1_k1_k1 false, 2, [2, 2, 2];
        c15_t_s_rl2_k1_k1_z false, 2, [2, 2, 4];
        c15_t_s_rl3_k1_k1_p false, 3, [2, 2, 0];
        c15_t_s_rl3_k1_k1_e false, 3, [2, 2, 1];
        c15_t_s_rl3_k1_k1_k1 false, 3, [2, 2, 2];
        c15_t_s_rl3_k1_k1_z false, 3, [2, 2, 4];
        c15_t_s_rl4_k1_k1_p false, 4, [2, 2, 0];
        c15_t_s_rl4_k1_k1_e false, 4, [2, 2, 1];
        c15_t_s_rl4_k1_k1_k1 false, 4, [2, 2, 2];
        c15_t_s_rl4_k1_k1_z false, 4, [2, 2, 4];
        c15_t_s_rv0_k1_k1_p true, 0, [2, 2, 0];
        c15_t_s_rv0_k1_k1_e true, 0, [2, 2, 1];
        c15_t_s_rv0_k1_k1_k1 true, 0, [2, 2, 2];
        c15_t_s_rv0_k1_k1_z true, 0, [2, 2, 4];
        c15_t_s_rv1_k1_k1_p true, 1, [2, 2, 0];
        c15_t_s_rv1_k1_k1_e true, 1, [2, 2, 1];
        c15_t_s_rv1_k1_k1_k1 true, 1, [2, 2, 2];
        c15_t_s_rv1_k1_k1_z true, 1, [2, 2, 4]);

/// Base case: a new reader satisfies Inv at a frame boundary.
#[kani::proof]
pub fn c15_new_reader_satisfies_inv() {
    let data = [0u8; S];
    let src = ASrc { data, end: 0, pos: 0, max_reads: 1, completed: 0, saw_err: false, saw_eof: false, saw_pending: false, script: None, calls: 0 };
    let r = AsyncReader::new(src);
    let (rv, lenb, o) = r.__verif_state();
    assert!(inv(rv, &lenb, o, r.__verif_buffer(), &data, 0));
    assert!(!rv && o == 0);
}
