//! see tests/
