use minicbor::{CborLen, Decode, Encode};
use vref::{wellformed, Wf};

/// KNOWN (C03): Encoder::simple(x) for 20 <= x <= 31 writes `f8 xx`, which RFC 8949 3.3 calls
/// not well-formed (20..23 are false/true/null/undefined, 24..31 have no encoding).
#[test]
fn kf_c03_simple_20_31_wellformed() {
    for x in 20u8..=31 {
        let mut e = minicbor::Encoder::new(Vec::new());
        e.simple(x).unwrap();
        let b = e.into_writer();
        match wellformed::<2>(&b, 0, 2) {
            Wf::Ok { end, .. } => assert_eq!(end, b.len()),
            o => panic!("simple({x}) -> {b:02x?} is not a well-formed item: {o:?}"),
        }
    }
}

#[derive(Encode, Decode, CborLen, Debug, PartialEq)]
#[cbor(map)]
struct Map24 {
    #[n(0)] a0: bool, #[n(1)] a1: bool, #[n(2)] a2: bool, #[n(3)] a3: bool, #[n(4)] a4: bool, #[n(5)] a5: bool,
    #[n(6)] a6: bool, #[n(7)] a7: bool, #[n(8)] a8: bool, #[n(9)] a9: bool, #[n(10)] a10: bool, #[n(11)] a11: bool,
    #[n(12)] a12: bool, #[n(13)] a13: bool, #[n(14)] a14: bool, #[n(15)] a15: bool, #[n(16)] a16: bool, #[n(17)] a17: bool,
    #[n(18)] a18: bool, #[n(19)] a19: bool, #[n(20)] a20: bool, #[n(21)] a21: bool, #[n(22)] a22: bool, #[n(23)] a23: Option<bool>,
}

/// FIXED (C07): 24-field map with one absent optional: 23 entries are written (1-byte map
/// head) but the derived CborLen took the head length from the declared field count (2 bytes).
#[test]
fn fix_c07_map_header_counts_written_entries() {
    let v = Map24 { a0: true, a1: true, a2: true, a3: true, a4: true, a5: true, a6: true, a7: true, a8: true, a9: true, a10: true,
        a11: true, a12: true, a13: true, a14: true, a15: true, a16: true, a17: true, a18: true, a19: true, a20: true, a21: true,
        a22: true, a23: None };
    let bytes = minicbor::to_vec(&v).unwrap();
    assert_eq!(minicbor::len(&v), bytes.len());
    let w = Map24 { a23: Some(false), ..v };
    assert_eq!(minicbor::len(&w), minicbor::to_vec(&w).unwrap().len());
}
