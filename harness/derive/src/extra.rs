//! Hand-written derive harnesses for attribute combinations outside the generated schema table:
//! borrowing fields, a generic parameter, custom nil-aware codecs (in both attribute orders).
use crate::util::*;
use minicbor::bytes::ByteSlice;
use minicbor::{CborLen, Decode, Decoder, Encode};

// ---- borrowing: &str / &ByteSlice fields point into the input ---------------------------------
#[derive(Encode, Decode, CborLen, PartialEq, Debug, Clone)]
pub struct Bor<'a> {
    #[b(0)] pub s: &'a str,
    #[n(1)] pub x: u8,
    #[b(2)] pub y: &'a ByteSlice,
}

/// C09 (borrowing): `83 62 s0 s1 18 x 42 y0 y1`: the decoded &str / &ByteSlice point INTO the input.
#[kani::proof]
#[kani::unwind(8)]
#[kani::stub(minicbor::decode::Decoder::skip, crate::util::skip_r3_small)]
pub fn c09_q_borrowed_fields_point_into_input() {
    let a: [u8; 5] = kani::any();
    let buf = [0x83, 0x62, a[0] & 0x7f, a[1] & 0x7f, 0x18, a[2], 0x42, a[3], a[4], 0xff];
    let mut d = Decoder::new(&buf[..]);
    let r = d.decode::<Bor>();
    assert!(r.is_ok());
    let v = r.unwrap();
    assert!(v.x == a[2]);
    assert!(v.s.len() == 2 && v.s.as_ptr() == unsafe { buf.as_ptr().add(2) }, "&str field does not borrow from the input");
    assert!(v.y.len() == 2 && v.y.as_ptr() == unsafe { buf.as_ptr().add(7) }, "&ByteSlice field does not borrow from the input");
    assert!(v.y[0] == a[3] && v.y[1] == a[4]);
    assert!(d.position() == 9);
}

/// C08 for the borrowing struct: bytes == documented layout.
#[kani::proof]
#[kani::unwind(12)]
pub fn c08_q_borrowed_struct_bytes() {
    let p: [u8; 2] = kani::any();
    kani::assume(p[0] < 0x80 && p[1] < 0x80);
    let y: [u8; 2] = kani::any();
    let x: u8 = kani::any();
    let v = Bor { s: unsafe { core::str::from_utf8_unchecked(&p[..]) }, x, y: (&y[..]).into() };
    let (out, pos, ok) = enc_cap(&v);
    let mut r = RefBuf::new();
    r.byte(0x83); r.byte(0x62); r.byte(p[0]); r.byte(p[1]); r.uint(x as u64); r.byte(0x42); r.byte(y[0]); r.byte(y[1]);
    assert!(ok && pos == r.n && eq_cap(&out, &r.b), "derived encoding of a borrowing struct differs from the documented format");
    assert!(v.cbor_len(&mut ()) == pos);
}

// ---- a generic parameter ---------------------------------------------------------------------
#[derive(Encode, Decode, CborLen, PartialEq, Debug, Clone)]
pub struct Gen<T> {
    #[n(0)] pub a: T,
    #[n(1)] pub b: Option<T>,
}

#[kani::proof]
#[kani::unwind(12)]
pub fn c08_q_generic_struct_bytes() {
    let v = Gen::<u16> { a: kani::any(), b: kani::any() };
    let (out, pos, ok) = enc_cap(&v);
    let mut r = RefBuf::new();
    match v.b { Some(b) => { r.byte(0x82); r.uint(v.a as u64); r.uint(b as u64) } None => { r.byte(0x81); r.uint(v.a as u64) } }
    assert!(ok && pos == r.n && eq_cap(&out, &r.b));
    assert!(v.cbor_len(&mut ()) == pos);
}

#[kani::proof]
#[kani::unwind(8)]
#[kani::stub(minicbor::decode::Decoder::skip, crate::util::skip_r3_small)]
pub fn c09_q_generic_struct_decode() {
    let a: [u8; 3] = kani::any();
    let buf = [0x82, 0x19, a[0], a[1], 0x18, a[2], 0xff];
    let mut d = Decoder::new(&buf[..]);
    let r = d.decode::<Gen<u16>>();
    assert!(matches!(r, Ok(ref v) if v.a == u16::from_be_bytes([a[0], a[1]]) && v.b == Some(a[2] as u16)));
    assert!(d.position() == 6);
}

// ---- custom nil-aware codecs: the attribute order must not matter ----------------------------
pub mod codec {
    use minicbor::{decode, encode, Decoder, Encoder};
    pub fn enc<C, W: encode::Write>(v: &u8, e: &mut Encoder<W>, _: &mut C) -> Result<(), encode::Error<W::Error>> { e.u8(*v)?.ok() }
    pub fn dec<'b, C>(d: &mut Decoder<'b>, _: &mut C) -> Result<u8, decode::Error> { d.u8() }
    pub fn is_zero(v: &u8) -> bool { *v == 0 }
    pub fn zero() -> Option<u8> { Some(0) }
    pub fn len<C>(v: &u8, _: &mut C) -> usize { if *v < 24 { 1 } else { 2 } }
}

/// `encode_with`, `is_nil`, then `decode_with`, `nil` (order 1) ...
#[derive(Encode, Decode, CborLen, PartialEq, Debug, Clone)]
#[cbor(map)]
pub struct NilA {
    #[n(0)] pub a: u8,
    #[cbor(n(1), encode_with = "codec::enc", is_nil = "codec::is_zero", decode_with = "codec::dec", nil = "codec::zero", cbor_len = "codec::len")]
    pub b: u8,
}
/// ... and `decode_with`, `nil`, then `encode_with`, `is_nil` (order 2).
#[derive(Encode, Decode, CborLen, PartialEq, Debug, Clone)]
#[cbor(map)]
pub struct NilB {
    #[n(0)] pub a: u8,
    #[cbor(n(1), decode_with = "codec::dec", nil = "codec::zero", encode_with = "codec::enc", is_nil = "codec::is_zero", cbor_len = "codec::len")]
    pub b: u8,
}

/// C08: a value the custom `is_nil` reports absent is omitted (map encoding), whatever the order
/// of the attributes; the two declarations encode identically.
#[kani::proof]
#[kani::unwind(12)]
pub fn c08_q_custom_nil_codec_attribute_order() {
    let a: u8 = kani::any();
    let b: u8 = kani::any();
    let (o1, p1, k1) = enc_cap(&NilA { a, b });
    let (o2, p2, k2) = enc_cap(&NilB { a, b });
    let mut r = RefBuf::new();
    if b == 0 { r.byte(0xa1); r.byte(0x00); r.uint(a as u64) } else { r.byte(0xa2); r.byte(0x00); r.uint(a as u64); r.byte(0x01); r.uint(b as u64) }
    assert!(k1 && k2);
    assert!(p1 == r.n && eq_cap(&o1, &r.b), "custom nil codec (encode_with first): bytes differ from the documented format");
    assert!(p2 == r.n && eq_cap(&o2, &r.b), "custom nil codec (decode_with first): bytes differ from the documented format");
    assert!(NilA { a, b }.cbor_len(&mut ()) == p1 && NilB { a, b }.cbor_len(&mut ()) == p2);
    kani::cover!(b == 0);
}

/// C09: the absent custom-nil field decodes to its nil value.
#[kani::proof]
#[kani::unwind(8)]
#[kani::stub(minicbor::decode::Decoder::skip, crate::util::skip_r3_small)]
pub fn c09_q_custom_nil_codec_decode() {
    let a: u8 = kani::any();
    let buf = [0xa1, 0x00, 0x18, a, 0xff];
    let mut d = Decoder::new(&buf[..]);
    let r = d.decode::<NilA>();
    assert!(matches!(r, Ok(NilA { a: x, b: 0 }) if x == a), "absent custom-nil field did not decode to its nil value");
    assert!(d.position() == 4);
    let mut d = Decoder::new(&buf[..]);
    assert!(matches!(d.decode::<NilB>(), Ok(NilB { a: x, b: 0 }) if x == a));
}

#[cfg(feature = "alloc")]
pub mod with_alloc {
    use super::*;
    use alloc::borrow::Cow;

    /// `#[cbor(b(N))]` (nested form) and `#[b(N)]` on `Cow<'a, str>`: the decoded value BORROWS.
    #[derive(Encode, Decode, PartialEq, Debug, Clone)]
    pub struct CowS<'a> {
        #[cbor(b(0))] pub s: Cow<'a, str>,
        #[b(1)] pub t: Cow<'a, str>,
        #[n(2)] pub x: u8,
    }

    #[kani::proof]
    #[kani::unwind(8)]
    #[kani::stub(minicbor::decode::Decoder::skip, crate::util::skip_r3_small)]
    pub fn c09_q_cow_fields_borrow_from_input() {
        let a: [u8; 3] = kani::any();
        let buf = [0x83, 0x61, a[0] & 0x7f, 0x61, a[1] & 0x7f, 0x18, a[2], 0xff];
        let mut d = Decoder::new(&buf[..]);
        let r = d.decode::<CowS>();
        assert!(r.is_ok());
        let v = r.unwrap();
        assert!(matches!(&v.s, Cow::Borrowed(x) if x.as_ptr() == unsafe { buf.as_ptr().add(2) }), "#[cbor(b(..))] Cow field is an owned copy");
        assert!(matches!(&v.t, Cow::Borrowed(x) if x.as_ptr() == unsafe { buf.as_ptr().add(4) }), "#[b(..)] Cow field is an owned copy");
        assert!(v.x == a[2] && d.position() == 7);
        core::mem::forget(v);
    }
}
