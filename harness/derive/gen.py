#!/usr/bin/env python3
"""Schema-driven generator for the derive harnesses (C07, C08, C09, C10).

Each schema row describes a struct or enum with minicbor-derive attributes.  For a row the
generator emits (1) the Rust type with #[derive(Encode, Decode, CborLen)], (2) an arbitrary-value
constructor over kani::any(), (3) the reference encoder R6 written from the *documentation*
of minicbor-derive (lib.rs, section "CBOR encoding"): array = fields at their index, gaps and absent
optionals null, length = highest present index + 1; map = ascending index keys, absent optionals
omitted; enum = [idx, body] or bare idx when index_only; tags precede what they annotate;
transparent = the field itself; skipped fields not written, and (4) the Kani harnesses.

The schema family IS the bound of the "programs" quantifier; it is printed into the evidence.
Usage: gen.py [seed]  -> writes src/gen.rs and schemas.json
"""
import json, os, random, sys

# ---- field type table: rust type, value generator, reference emitter, equality, max encoded length
SCALARS = {
    "u8":   dict(gen="kani::any::<u8>()",  emit=lambda v: f"r.uint({v} as u64);", maxlen=2),
    "u16":  dict(gen="kani::any::<u16>()", emit=lambda v: f"r.uint({v} as u64);", maxlen=3),
    "u32":  dict(gen="kani::any::<u32>()", emit=lambda v: f"r.uint({v} as u64);", maxlen=5),
    "i8":   dict(gen="kani::any::<i8>()",  emit=lambda v: f"r.int({v} as i128);", maxlen=2),
    "i16":  dict(gen="kani::any::<i16>()", emit=lambda v: f"r.int({v} as i128);", maxlen=3),
    "bool": dict(gen="kani::any::<bool>()", emit=lambda v: f"r.byte(if {v} {{ 0xf5 }} else {{ 0xf4 }});", maxlen=1),
}


class Field:
    def __init__(self, idx, ty, opt=False, tag=None, skip=False, b=False, bytes_=False, nested=None, name=None):
        self.idx, self.ty, self.opt, self.tag, self.skip, self.b = idx, ty, opt, tag, skip, b
        self.bytes = bytes_      # with = "minicbor::bytes" on [u8; 2]
        self.nested = nested     # name of another schema used as field type
        self.name = name

    def rust_ty(self):
        base = self.nested if self.nested else ("[u8; 2]" if self.bytes else self.ty)
        return f"Option<{base}>" if self.opt else base

    def attrs(self):
        a = []
        if self.skip:
            return "#[cbor(skip)]"
        a.append(f"{'b' if self.b else 'n'}({self.idx})")
        if self.tag is not None:
            a.append(f"tag({self.tag})")
        if self.bytes:
            a.append('with = "minicbor::bytes"')
        return "#[cbor(" + ", ".join(a) + ")]"

    def gen(self):
        if self.skip:
            return "Default::default()"
        if getattr(self, "const", None) is not None:
            return self.const
        if self.nested:
            inner = f"super::s_{self.nested.lower()}::gen()"
        elif self.bytes:
            inner = "kani::any::<[u8; 2]>()"
        else:
            inner = SCALARS[self.ty]["gen"]
        if self.opt:
            return f"if kani::any() {{ Some({inner}) }} else {{ None }}"
        return inner

    def emit_value(self, v):
        """reference emission of the inner (present) value bound to expression v (by value or ref)"""
        if self.nested:
            return f"super::s_{self.nested.lower()}::refenc(&{v}, r);"
        if self.bytes:
            return f"r.byte(0x42); r.byte({v}[0]); r.byte({v}[1]);"
        return SCALARS[self.ty]["emit"](v)

    def maxlen(self, schemas):
        if self.skip:
            return 0
        if self.nested:
            n = schemas[self.nested].maxlen(schemas)
        elif self.bytes:
            n = 3
        else:
            n = SCALARS[self.ty]["maxlen"]
        if self.tag is not None:
            n += taglen(self.tag)
        return n


def taglen(t):
    return 1 if t < 24 else 2 if t < 256 else 3 if t < 65536 else 5


def headlen(n):
    return taglen(n)


class Struct:
    kind = "struct"

    def __init__(self, name, fields, enc="array", tag=None, tuple_=False, transparent=False, tier="q", note=""):
        self.name, self.fields, self.enc, self.tag, self.tuple, self.transparent = name, fields, enc, tag, tuple_, transparent
        self.tier, self.note = tier, note
        for i, f in enumerate(self.fields):
            if f.name is None:
                f.name = f"f{i}"

    def live(self):
        return sorted([f for f in self.fields if not f.skip], key=lambda f: f.idx)

    def type_def(self):
        attrs = []
        if self.transparent:
            attrs.append("transparent")
        elif self.enc == "map":
            attrs.append("map")
        if self.tag is not None:
            attrs.append(f"tag({self.tag})")
        a = f"#[cbor({', '.join(attrs)})]\n" if attrs else ""
        d = "#[derive(minicbor::Encode, minicbor::Decode, minicbor::CborLen, PartialEq, Clone, Debug)]\n" + a
        if self.tuple:
            body = ", ".join(f"{f.attrs()} pub {f.rust_ty()}" for f in self.fields)
            return d + f"pub struct {self.name}({body});\n"
        body = "".join(f"    {f.attrs()} pub {f.name}: {f.rust_ty()},\n" for f in self.fields)
        return d + f"pub struct {self.name} {{\n{body}}}\n"

    def acc(self, i, f):
        return f"v.{i}" if self.tuple else f"v.{f.name}"

    def gen_fn(self):
        if self.tuple:
            inner = ", ".join(f.gen() for f in self.fields)
            return f"pub fn gen() -> {self.name} {{ {self.name}({inner}) }}\n"
        inner = ", ".join(f"{f.name}: {f.gen()}" for f in self.fields)
        return f"pub fn gen() -> {self.name} {{ {self.name} {{ {inner} }} }}\n"

    def ref_body(self, accs):
        """accs: dict field -> expression (by value / place).  Returns Rust statements writing into r."""
        out = []
        if self.tag is not None:
            out.append(f"r.head(6, {self.tag});")
        live = self.live()
        if self.transparent:
            f = live[0]
            out.append(emit_field(f, accs[f]))
            return "\n    ".join(out)
        if self.enc == "array":
            out.append("let mut max: i64 = -1;")
            for f in live:
                pres = f"{accs[f]}.is_some()" if f.opt else "true"
                out.append(f"if {pres} {{ max = {f.idx}; }}")
            out.append("r.head(4, (max + 1) as u64);")
            smax = max([f.idx for f in live], default=-1)
            byidx = {f.idx: f for f in live}
            for p in range(smax + 1):
                if p in byidx:
                    f = byidx[p]
                    out.append(f"if {p} <= max {{ {emit_field(f, accs[f])} }}")
                else:
                    out.append(f"if {p} <= max {{ r.byte(0xf6); }}")
        else:
            out.append("let mut cnt: u64 = 0;")
            for f in live:
                pres = f"{accs[f]}.is_some()" if f.opt else "true"
                out.append(f"if {pres} {{ cnt += 1; }}")
            out.append("r.head(5, cnt);")
            for f in live:
                if f.opt:
                    out.append(f"if let Some(x) = &{accs[f]} {{ r.uint({f.idx}); {tag_stmt(f)} {f.emit_value('(*x)')} }}")
                else:
                    out.append(f"r.uint({f.idx}); {tag_stmt(f)} {f.emit_value(accs[f])}")
        return "\n    ".join(out)

    def ref_fn(self):
        accs = {f: self.acc(i, f) for i, f in enumerate(self.fields)}
        return f"pub fn refenc(v: &{self.name}, r: &mut RefBuf) {{\n    {self.ref_body(accs)}\n}}\n"

    def maxlen(self, schemas):
        live = self.live()
        n = sum(f.maxlen(schemas) for f in live)
        if self.transparent:
            return n + (taglen(self.tag) if self.tag is not None else 0)
        if self.enc == "array":
            smax = max([f.idx for f in live], default=-1)
            n += (smax + 1 - len(live))  # gap nulls
            n += headlen(smax + 1)
        else:
            n += sum(headlen(f.idx) for f in live) + headlen(len(live))
        if self.tag is not None:
            n += taglen(self.tag)
        return n

    def first_byte(self):
        if self.tag is not None:
            return None
        return None

    def describe(self):
        return {"name": self.name, "kind": "tuple struct" if self.tuple else "struct", "encoding": self.enc,
                "tag": self.tag, "transparent": self.transparent, "tier": self.tier, "note": self.note,
                "fields": [{"index": f.idx, "type": f.rust_ty(), "tag": f.tag, "skip": f.skip, "b": f.b} for f in self.fields]}


def tag_stmt(f):
    return f"r.head(6, {f.tag});" if f.tag is not None else ""


def emit_field(f, acc):
    """array position / transparent: [tag] value; an absent optional's value is null (the documentation:
    "Options which are None end up as NULLs", the tag being "the CBOR tag of the value")"""
    if f.opt:
        return f"{tag_stmt(f)} match &{acc} {{ Some(x) => {{ {f.emit_value('(*x)')} }} None => r.byte(0xf6) }}"
    return f"{tag_stmt(f)} {f.emit_value(acc)}"


class Variant:
    def __init__(self, idx, name, fields=None, kind="unit", enc=None, tag=None):
        self.idx, self.name, self.fields, self.kind, self.enc, self.tag = idx, name, fields or [], kind, enc, tag
        for i, f in enumerate(self.fields):
            if f.name is None:
                f.name = f"f{i}"


class Enum:
    kind = "enum"

    def __init__(self, name, variants, enc="array", index_only=False, tag=None, tier="q", note=""):
        self.name, self.variants, self.enc, self.index_only, self.tag, self.tier, self.note = name, variants, enc, index_only, tag, tier, note

    def type_def(self):
        attrs = []
        if self.index_only:
            attrs.append("index_only")
        if self.enc == "map":
            attrs.append("map")
        if self.tag is not None:
            attrs.append(f"tag({self.tag})")
        a = f"#[cbor({', '.join(attrs)})]\n" if attrs else ""
        d = "#[derive(minicbor::Encode, minicbor::Decode, minicbor::CborLen, PartialEq, Clone, Debug)]\n" + a
        rows = []
        for v in self.variants:
            va = [f"n({v.idx})"]
            if v.enc:
                va.append(v.enc)
            if v.tag is not None:
                va.append(f"tag({v.tag})")
            pre = f"    #[cbor({', '.join(va)})] "
            if v.kind == "unit":
                rows.append(pre + v.name + ",\n")
            elif v.kind == "tuple":
                rows.append(pre + v.name + "(" + ", ".join(f"{f.attrs()} {f.rust_ty()}" for f in v.fields) + "),\n")
            else:
                rows.append(pre + v.name + " { " + ", ".join(f"{f.attrs()} {f.name}: {f.rust_ty()}" for f in v.fields) + " },\n")
        return d + f"pub enum {self.name} {{\n{''.join(rows)}}}\n"

    def gen_fn(self):
        arms = []
        n = len(self.variants)
        for k, v in enumerate(self.variants):
            if v.kind == "unit":
                e = f"{self.name}::{v.name}"
            elif v.kind == "tuple":
                e = f"{self.name}::{v.name}(" + ", ".join(f.gen() for f in v.fields) + ")"
            else:
                e = f"{self.name}::{v.name} {{ " + ", ".join(f"{f.name}: {f.gen()}" for f in v.fields) + " }"
            arms.append(f"if k == {k} {{ return {e} }}" if k < n - 1 else e)
        return f"pub fn gen() -> {self.name} {{ let k: u8 = kani::any(); kani::assume(k < {n}); " + " ".join(arms) + " }\n"

    def ref_fn(self):
        arms = []
        for v in self.variants:
            enc = v.enc or self.enc
            if v.kind == "unit":
                pat = f"{self.name}::{v.name}"
            elif v.kind == "tuple":
                pat = f"{self.name}::{v.name}(" + ", ".join(f.name for f in v.fields) + ")"
            else:
                pat = f"{self.name}::{v.name} {{ " + ", ".join(f.name for f in v.fields) + " }"
            st = []
            if self.index_only:
                st.append(f"r.uint({v.idx});")
            else:
                st.append(f"r.head(4, 2); r.uint({v.idx});")
                if v.tag is not None:
                    st.append(f"r.head(6, {v.tag});")
                body = Struct("_", v.fields, enc=enc)
                accs = {f: f"(*{f.name})" for f in v.fields}
                st.append(body.ref_body(accs))
            arms.append(f"{pat} => {{ {' '.join(st)} }}")
        pre = f"r.head(6, {self.tag});" if self.tag is not None else ""
        return f"pub fn refenc(v: &{self.name}, r: &mut RefBuf) {{\n    {pre}\n    match v {{\n        " + "\n        ".join(arms) + "\n    }\n}\n"

    def maxlen(self, schemas):
        m = 0
        for v in self.variants:
            if self.index_only:
                n = headlen(v.idx)
            else:
                n = 1 + headlen(v.idx) + (taglen(v.tag) if v.tag is not None else 0) + Struct("_", v.fields, enc=v.enc or self.enc).maxlen(schemas)
            m = max(m, n)
        return m + (taglen(self.tag) if self.tag is not None else 0)

    def describe(self):
        return {"name": self.name, "kind": "enum", "encoding": self.enc, "index_only": self.index_only, "tag": self.tag,
                "tier": self.tier, "note": self.note,
                "variants": [{"index": v.idx, "kind": v.kind, "encoding": v.enc, "tag": v.tag,
                              "fields": [{"index": f.idx, "type": f.rust_ty(), "tag": f.tag} for f in v.fields]} for v in self.variants]}


F = Field

# ---- the quick family: crosses the value-affecting attributes at least pairwise ----------------
SCHEMAS = [
    Struct("Plain", [F(0, "u8"), F(1, "u16"), F(2, "bool")], note="array, dense"),
    Struct("Gaps", [F(0, "u8"), F(2, "u16"), F(5, "bool")], note="array with index gaps 1,3,4"),
    Struct("Perm", [F(2, "bool"), F(0, "u16"), F(1, "i8")], note="declaration order permuted"),
    Struct("OptLast", [F(0, "u8"), F(1, "u16", opt=True)], note="trailing optional"),
    Struct("OptMid", [F(0, "u8", opt=True), F(1, "bool"), F(2, "u8", opt=True)], note="optional first and last"),
    Struct("OptGap", [F(1, "u8", opt=True), F(3, "u16", opt=True)], note="all optional with gaps"),
    Struct("TupleS", [F(0, "u8"), F(1, "i16", opt=True), F(2, "bool")], tuple_=True, note="tuple struct, optional in the middle"),
    Struct("MapS", [F(0, "u8"), F(1, "u16", opt=True), F(3, "bool")], enc="map", note="map encoding, gap, optional"),
    Struct("MapOpt", [F(0, "u8", opt=True), F(7, "u8", opt=True)], enc="map", note="map, all optional"),
    Struct("MapBig", [F(24, "u8"), F(300, "bool", opt=True)], enc="map", note="map keys needing 2- and 3-byte heads"),
    Struct("TagS", [F(0, "u8"), F(1, "bool")], tag=7, note="struct-level tag"),
    Struct("TagBigS", [F(0, "u8")], tag=1000, enc="map", note="3-byte struct tag on a map"),
    Struct("TagF", [F(0, "u8", tag=5), F(1, "u16")], note="field-level tag"),
    Struct("TagOptF", [F(0, "u8"), F(1, "u8", opt=True, tag=9), F(2, "bool", opt=True)], note="tag on an optional field, array"),
    Struct("TagOptMap", [F(0, "u8", opt=True, tag=9), F(1, "bool")], enc="map", note="tag on an optional field, map"),
    Struct("Newtype", [F(0, "u16")], transparent=True, tuple_=True, note="transparent newtype"),
    Struct("SkipN", [F(0, "u8"), F(0, "u16", skip=True, name="cache"), F(1, "bool")], note="skipped named field"),
    Struct("SkipT", [F(0, "u8", skip=True), F(0, "u8"), F(1, "u8")], tuple_=True, note="skipped FIRST tuple position, same-typed neighbours (a generator that mis-places the default still compiles)"),
    Struct("Bytes2", [F(0, "u8", bytes_=True), F(1, "u8", bytes_=True, opt=True)], note='with = "minicbor::bytes" on [u8;2] and Option<[u8;2]>'),
    Struct("Unit0", [], note="no fields"),
    Struct("Inner", [F(0, "u8"), F(1, "bool", opt=True)], note="nested (inner)"),
    Struct("Outer", [F(0, "u8", nested="Inner"), F(1, "u8", nested="Inner", opt=True), F(2, "u8")], note="struct in struct, optional struct"),
    Enum("EPlain", [Variant(0, "A"), Variant(1, "B", [F(0, "u8")], "tuple"), Variant(2, "C", [F(0, "u8"), F(1, "bool", opt=True)], "struct")], note="unit / tuple / struct variants"),
    Enum("EIdx", [Variant(0, "A"), Variant(3, "B"), Variant(24, "C")], index_only=True, note="index_only, 2-byte index"),
    Enum("EMap", [Variant(0, "A"), Variant(1, "B", [F(0, "u8", opt=True), F(2, "u16")], "struct")], enc="map", note="enum-level map"),
    Enum("EMix", [Variant(0, "A", [F(0, "u8")], "tuple", enc="map"), Variant(1, "B", [F(1, "bool")], "struct")], note="variant-level map override"),
    Enum("ETag", [Variant(0, "A", tag=3), Variant(1, "B", [F(0, "u8", tag=4)], "tuple", tag=5)], tag=6, note="tags at enum, variant and field level"),
    Struct("WithEnum", [F(0, "u8"), F(1, "u8", nested="EPlain", opt=True), F(2, "bool")], note="enum in an optional field with a sibling after it"),
    Struct("WithIdx", [F(0, "u8", nested="EIdx", opt=True), F(1, "u8")], note="index_only enum in an optional field"),
    Enum("EOptTag", [Variant(0, "A", [F(0, "u8", opt=True, tag=9), F(1, "u8"), F(2, "bool")], "struct"),
                     Variant(1, "B", [F(0, "u8", opt=True, tag=300), F(1, "u8", opt=True), F(2, "bool")], "tuple")], note="tagged optional followed by two fields inside enum variants"),
    Struct("BytesOptT", [F(0, "u8", bytes_=True, opt=True)], transparent=True, tuple_=True, note="transparent newtype over Option<[u8;2]> with the bytes codec"),
    Struct("SkipT2", [F(0, "u8"), F(0, "u8", skip=True), F(1, "u8")], tuple_=True, note="skipped tuple position between two fields of the same type"),
    Enum("EMixU", [Variant(0, "A", enc="map"), Variant(1, "B", [F(0, "u8")], "tuple"), Variant(2, "C")], note="unit variant with a variant-level map override (and one without)"),
    Enum("EMapU", [Variant(0, "A", enc="array"), Variant(1, "B")], enc="map", note="map-encoded enum with a unit variant overriding to array"),
    # A 25-field map/array schema (header at the 23/24 entry boundary) was tried with a 128-byte cursor
    # and concrete mandatory fields: CBMC runs out of memory (24 GB) -> outside the solver's reach.
]
for _s in SCHEMAS:
    if _s.name == "Outer":
        _s.skip_layouts = (3,)




# ---------------------------------------------------------------------------------------------
# Type-directed inputs (TD): the generator lays out an encoding of the schema per the documented
# format with a CONCRETE skeleton (container heads, presence of optionals, head widths, chosen
# variant) and SYMBOLIC argument bytes, so that the decoder's cursor stays concrete (the only
# shape CBMC handles: see DESIGN.md 2).  The expected value is built from the same symbols.

class TD:
    def __init__(self, rng, cls, presence, frame):
        self.rng, self.cls, self.presence, self.frame = rng, cls, presence, frame
        self.bytes, self.nsym, self.nbool = [], 0, 0
        self.desc = []
        self.tagged_null = True   # writer convention for an absent tagged optional inside the array range

    def sym(self, mask=None):
        e = f"a[{self.nsym}]"
        self.nsym += 1
        if mask is not None:
            e = f"({e} & 0x{mask:02x})"
        self.bytes.append(e)
        return e

    def const(self, b):
        self.bytes.append(f"0x{b:02x}")

    def head(self, major, n, wide=False):
        m = major << 5
        if n < 24 and not wide:
            self.const(m | n)
        elif n < 256:
            self.const(m | 24); self.const(n)
        else:
            self.const(m | 25); self.const(n >> 8); self.const(n & 0xff)

    def pick_cls(self):
        return self.cls if self.cls != "mix" else self.rng.choice(["h", "p", "w"])

    def scalar(self, ty, in_opt=False):
        """emit one scalar, return the Rust expression of its value.  `in_opt`: the value sits in an
        Option field, whose decoder inspects the item's type first (Decoder::datatype): every byte
        that inspection reads must be concrete or CBMC explores the skip() arm with symbolic state."""
        if ty == "bool" and (self.frame == "indef" or in_opt):
            # inside an indefinite container the decoder peeks at every initial byte to find the
            # break: a symbolic initial byte would make the loop bound symbolic
            c = self.rng.random() < 0.5
            self.const(0xf5 if c else 0xf4)
            return "true" if c else "false"
        if ty == "bool":
            e = f"b[{self.nbool}]"
            self.nbool += 1
            self.bytes.append(f"(if {e} {{ 0xf5 }} else {{ 0xf4 }})")
            return e
        cls = self.pick_cls()
        signed = ty.startswith("i")
        neg = signed and self.rng.random() < 0.5
        major = 1 if neg else 0
        bits = int(ty[1:])
        nbytes = bits // 8
        if cls == "h":
            c = self.rng.choice([0, 1, 22, 23])
            self.const((major << 5) | c)
            v = f"{c}"
        else:
            w = nbytes if cls == "p" else nbytes * 2
            ai = {1: 24, 2: 25, 4: 26, 8: 27}[w]
            self.const((major << 5) | ai)
            for _ in range(w - nbytes):
                self.const(0)
            syms = []
            for k in range(nbytes):
                if signed and k == 0 and (neg and (in_opt or self.frame == "indef")):
                    # datatype() of a negative integer peeks at the first argument byte
                    c = self.rng.choice([0x00, 0x01, 0x7f, 0x40])
                    self.const(c)
                    syms.append(f"0x{c:02x}")
                else:
                    syms.append(self.sym(0x7f if (signed and k == 0) else None))
            if nbytes == 1:
                v = syms[0]
            else:
                v = f"u{bits}::from_be_bytes([{', '.join(syms)}])"
        if signed:
            return f"(-1 - ({v} as {ty}))" if neg else f"({v} as {ty})"
        return f"({v} as {ty})"

    def present(self):
        if self.presence == "all":
            return True
        if self.presence == "none":
            return False
        return self.rng.random() < 0.5


def td_field_value(td, f, schemas):
    """emit the (present) value of field f; returns a value-tree node"""
    if f.tag is not None:
        td.head(6, f.tag)
    if f.nested:
        return td_schema(td, schemas[f.nested], schemas)
    if f.bytes:
        td.const(0x42)
        return ("val", f"[{td.sym()}, {td.sym()}]")
    return ("val", td.scalar(f.ty, in_opt=f.opt))


def td_fields(td, fields, enc, schemas, outer=False):
    """emit the struct body per the documented format; returns {idx: node or None(absent)}"""
    live = sorted([f for f in fields if not f.skip], key=lambda f: f.idx)
    pres = {f.idx: (td.present() if f.opt else True) for f in live}
    vt = {}
    indef = outer and td.frame == "indef"
    wide = outer and td.frame == "wide"
    if enc == "array":
        mx = max([f.idx for f in live if pres[f.idx]], default=-1)
        if indef:
            td.const(0x9f)
        else:
            td.head(4, mx + 1, wide)
        byidx = {f.idx: f for f in live}
        for p in range(mx + 1):
            if p in byidx and pres[p]:
                vt[p] = td_field_value(td, byidx[p], schemas)
            else:
                if p in byidx and byidx[p].tag is not None and td.tagged_null:
                    td.head(6, byidx[p].tag)
                td.const(0xf6)
                if p in byidx:
                    vt[p] = None
        for f in live:
            vt.setdefault(f.idx, None)
        if indef:
            td.const(0xff)
    else:
        cnt = sum(1 for f in live if pres[f.idx])
        if indef:
            td.const(0xbf)
        else:
            td.head(5, cnt, wide)
        for f in live:
            if pres[f.idx]:
                td.head(0, f.idx, wide)
                vt[f.idx] = td_field_value(td, f, schemas)
            else:
                vt[f.idx] = None
        if indef:
            td.const(0xff)
    return vt


def td_schema(td, s, schemas, outer=False, variant=None):
    if s.tag is not None:
        td.head(6, s.tag)
    if s.kind == "struct":
        if s.transparent:
            f = s.live()[0]
            return ("struct", {f.idx: td_field_value(td, f, schemas)})
        return ("struct", td_fields(td, s.fields, s.enc, schemas, outer))
    v = variant if variant is not None else td.rng.choice(s.variants)
    if s.index_only:
        td.head(0, v.idx)
        return ("enum", v.idx, {})
    td.const(0x82)
    td.head(0, v.idx)
    if v.tag is not None:
        td.head(6, v.tag)
    return ("enum", v.idx, td_fields(td, v.fields, v.enc or s.enc, schemas))


class Missing(Exception):
    pass


def build_fields(fields, vt, schemas, tuple_):
    parts = []
    for f in fields:
        if f.skip:
            e = "Default::default()"
        else:
            node = vt.get(f.idx)
            if node is None:
                if not f.opt:
                    raise Missing(f.idx)
                e = "None"
            else:
                inner = build_value(schemas[f.nested], node, schemas, in_option=f.opt) if f.nested else node[1]
                if inner is None:      # unknown variant inside an optional field
                    e = "None"
                else:
                    e = f"Some({inner})" if f.opt else inner
        parts.append(e if tuple_ else f"{f.name}: {e}")
    return ", ".join(parts)


def build_value(s, node, schemas, in_option=False):
    """Rust expression of the value a reader of schema `s` must obtain from value tree `node`."""
    if s.kind == "struct":
        assert node[0] == "struct", (s.name, node)
        inner = build_fields(s.fields, node[1], schemas, s.tuple)
        return f"{s.name}({inner})" if s.tuple else f"{s.name} {{ {inner} }}"
    assert node[0] == "enum"
    vs = [v for v in s.variants if v.idx == node[1]]
    if not vs:
        if in_option:
            return None
        raise Missing("variant %d" % node[1])
    v = vs[0]
    if v.kind == "unit":
        return f"{s.name}::{v.name}"
    inner = build_fields(v.fields, node[2], schemas, v.kind == "tuple")
    return f"{s.name}::{v.name}({inner})" if v.kind == "tuple" else f"{s.name}::{v.name} {{ {inner} }}"


LAYOUTS = [("p", "all", "def"), ("h", "none", "def"), ("mix", "rand", "indef"), ("w", "rand", "wide"), ("mix", "rand", "def")]


def td_case(writer, reader, schemas, seed, cls, presence, frame, variant=None):
    rng = random.Random(seed)
    td = TD(rng, cls, presence, frame)
    node = td_schema(td, writer, schemas, outer=True, variant=variant)
    try:
        exp = build_value(reader, node, schemas)
    except Missing as m:
        exp = None
    return td, exp


def static_max(s):
    if s.kind == "struct":
        return max([f.idx for f in s.fields if not f.skip], default=0)
    return max([max([f.idx for f in v.fields], default=0) for v in s.variants], default=0)


def td_fn(name, td, exp, reader, doc, errcheck=None, uw_override=None):
    L = len(td.bytes)
    # the TD harness body has no loops of its own; the derived decoder's field loop runs at most
    # (highest index + 2) times and the skip model at most 4: a tight bound keeps the infeasible
    # "Ok side of an Err result" paths (niche discriminants are not constant-folded) small
    uw = uw_override or max(8, static_max(reader) + 3)
    decl = ""
    if td.nsym:
        decl += f"let a: [u8; {td.nsym}] = kani::any(); "
    if td.nbool:
        decl += f"let b: [bool; {td.nbool}] = kani::any(); "
    body = f"""
        /// {doc}
        #[kani::proof]
        #[kani::unwind({uw})]
        #[kani::stub(minicbor::decode::Decoder::skip, crate::util::skip_r3_small)]
        pub fn {name}() {{
            {decl}
            let sfx: u8 = kani::any();
            let buf: [u8; {L + 1}] = [{', '.join(td.bytes)}, sfx];
            let mut d = Decoder::new(&buf[..]);
            let r = d.decode::<{reader.name}>();
"""
    if exp is not None:
        body += f"""            assert!(r.is_ok(), "decoder rejects an encoding in the documented format");
            let want = {exp};
            assert!(r.unwrap() == want, "decoded value differs");
            assert!(d.position() == {L}, "decoder did not consume exactly the item");
            kani::cover!(true);
        }}
"""
    else:
        body += f"""            assert!(r.is_err(), "missing mandatory data papered over");
            {errcheck or ''}
            kani::cover!(true);
        }}
"""
    return body


def td_harnesses(s, schemas):
    out = []
    cases = []
    if s.kind == "enum":
        k = 0
        for v in s.variants:
            for (cls, pres, frame) in LAYOUTS[:2] + [LAYOUTS[4]]:
                cases.append((k, cls, pres, frame, v)); k += 1
    else:
        for k, (cls, pres, frame) in enumerate(LAYOUTS):
            if k in getattr(s, "skip_layouts", ()):
                continue   # measured: exhausts CBMC's memory for this schema (stated in the evidence)
            cases.append((k, cls, pres, frame, None))
    seen = set()
    for (k, cls, pres, frame, v) in cases:
        td, exp = td_case(s, s, schemas, hash((s.name, k)) & 0xffff if False else (sum(map(ord, s.name)) * 31 + k), cls, pres, frame, v)
        key = tuple(td.bytes)
        if key in seen:
            continue
        seen.add(key)
        doc = f"C09 (type-directed): layout {k}: widths={cls} presence={pres} frame={frame}" + (f" variant={v.name}" if v else "")
        out.append(td_fn(f"c09_l{k}", td, exp, s, doc))
    # thorough tier: extra layouts drawn with VERIF_SEED (the driver regenerates this file in a private copy)
    extra = int(os.environ.get("VERIF_EXTRA_LAYOUTS", "0") or 0)
    seed0 = int(os.environ.get("VERIF_SEED", "0") or 0)
    for j in range(extra):
        rr = random.Random(seed0 * 1000003 + sum(map(ord, s.name)) * 101 + j)
        cls, pres = "mix", "rand"
        frame = rr.choice(["def", "def", "wide"]) if getattr(s, "skip_layouts", None) is None else "def"
        v = rr.choice(s.variants) if s.kind == "enum" else None
        td, exp = td_case(s, s, schemas, rr.randrange(1 << 30), cls, pres, frame, v)
        key = tuple(td.bytes)
        if key in seen:
            continue
        seen.add(key)
        out.append(td_fn(f"c09_x{j}", td, exp, s, f"C09 (type-directed): extra layout {j} drawn with VERIF_SEED={seed0}: widths=mix presence=rand frame={frame}"))
    # negative cases
    if s.tag is not None:
        # wrong tag: `d8 xx` / `d9 xx xx` with a symbolic tag value different from the declared one
        td, _ = td_case(s, s, schemas, 7, "p", "all", "def", s.variants[0] if s.kind == "enum" else None)
        n_tag = len(TDtmp_head(s.tag))
        rest = td.bytes[n_tag:]
        td2 = TD(random.Random(1), "p", "all", "def")
        td2.bytes = ["0xd9", "t[0]", "t[1]"] + rest
        td2.nsym, td2.nbool = td.nsym, td.nbool
        fn = td_fn("c09_wrong_tag", td2, None, s, "C09: a wrong tag is an error of the tag-mismatch class",
                   'if let Err(e) = &r { assert!(e.is_tag_mismatch(), "wrong tag: not a tag-mismatch error"); assert!(e.position() == Some(0), "tag mismatch reported at another position than the tag (same in every feature configuration)") }')
        fn = fn.replace("let sfx: u8 = kani::any();", f"let sfx: u8 = kani::any(); let t: [u8; 2] = kani::any(); kani::assume(u16::from_be_bytes(t) as u64 != {s.tag});")
        out.append(fn)
        td3 = TD(random.Random(1), "p", "all", "def")
        td3.bytes, td3.nsym, td3.nbool = rest, td.nsym, td.nbool
        # the decoder must fail at its very first step; no legitimate loop iteration exists on this
        # input, so the unwind bound is minimal (keeps the infeasible continuation paths small)
        out.append(td_fn("c09_missing_tag", td3, None, s, "C09: a missing tag is an error", "", uw_override=2))
    # wrong tag at variant level / field level: the writer schema is a copy whose tag is off by one
    import copy
    def wrong_tag_case(name, mutate, variant_idx=None):
        w = copy.deepcopy(s)
        mutate(w)
        v = None
        if w.kind == "enum":
            v = [x for x in w.variants if x.idx == variant_idx][0]
        tdw, _ = td_case(w, s, schemas, 11, "p", "all", "def", v)
        out.append(td_fn(name, tdw, None, s, "C09: a wrong tag (variant / field level) is a tag-mismatch error, never accepted",
                         'if let Err(e) = &r { assert!(e.is_tag_mismatch(), "wrong tag: not a tag-mismatch error") }'))
    if s.kind == "enum":
        for v in s.variants:
            if v.tag is not None:
                def mut(w, vi=v.idx):
                    for x in w.variants:
                        if x.idx == vi:
                            x.tag += 1
                wrong_tag_case(f"c09_wrong_variant_tag_{v.idx}", mut, v.idx)
            for fi, f in enumerate(v.fields):
                if f.tag is not None:
                    def mutf(w, vi=v.idx, fi=fi):
                        for x in w.variants:
                            if x.idx == vi:
                                x.fields[fi].tag += 1
                    wrong_tag_case(f"c09_wrong_field_tag_{v.idx}_{fi}", mutf, v.idx)
    else:
        for fi, f in enumerate(s.fields):
            if f.tag is not None and not f.skip:
                def mutf(w, fi=fi):
                    w.fields[fi].tag += 1
                wrong_tag_case(f"c09_wrong_field_tag_{fi}", mutf)
    if s.kind == "enum":
        td4 = TD(random.Random(1), "p", "all", "def")
        if s.tag is not None:
            td4.head(6, s.tag)
        unk = max(v.idx for v in s.variants) + 1
        if s.index_only:
            td4.head(0, unk)
        else:
            td4.const(0x82); td4.head(0, unk); td4.const(0x80)
        fn = td_fn("c09_unknown_variant", td4, None, s, "C09: an unknown variant at top level is an unknown-variant error",
                   'if let Err(e) = &r { assert!(e.is_unknown_variant(), "not an unknown-variant error") }')
        out.append(fn)
    elif not s.transparent:
        mand = [f for f in s.live() if not f.opt]
        if mand:
            # drop the mandatory field with the highest index: array one element short / map without the key
            f = mand[-1]
            s2 = Struct(s.name, [g for g in s.fields if g is not f or g.skip], enc=s.enc, tag=s.tag, tuple_=s.tuple)
            td5, _ = td_case(s2, s2, schemas, 3, "p", "none" if s.enc == "map" else "all", "def")
            # in array encoding fields above f would re-introduce position f as null; keep only lower ones
            if s.enc == "array":
                s2 = Struct(s.name, [g for g in s.fields if (g.idx < f.idx and not g.skip)], enc=s.enc, tag=s.tag, tuple_=s.tuple)
                td5, _ = td_case(s2, s2, schemas, 3, "p", "all", "def")
            out.append(td_fn("c09_missing_mandatory", td5, None, s, f"C09: mandatory field {f.idx} missing => missing-value error, never a default",
                             'if let Err(e) = &r { assert!(e.is_missing_value(), "not a missing-value error") }'))
    return "\n".join(out)


def TDtmp_head(n):
    t = TD(random.Random(0), "p", "all", "def")
    t.head(6, n)
    return t.bytes


def nested_uses(s):
    fs = s.fields if s.kind == "struct" else [f for v in s.variants for f in v.fields]
    names = sorted({f.nested for f in fs if f.nested})
    return " ".join(f"use super::s_{n.lower()}::{n};" for n in names)


COMPAT_SCHEMAS = [
    Struct("PlainR", [F(1, "u16", name="second"), F(2, "bool", name="third"), F(0, "u8", name="first")], note="Plain renamed and permuted"),
    Struct("A1", [F(0, "u8"), F(1, "u16")]), Struct("A2", [F(0, "u8"), F(1, "u16"), F(2, "bool", opt=True)], note="optional added at a new index"),
    Struct("G1", [F(0, "u8"), F(2, "u16")]), Struct("G2", [F(0, "u8"), F(1, "u8", opt=True), F(2, "u16")], note="optional added at a gap index"),
    Struct("M1", [F(0, "u8"), F(3, "bool")], enc="map"), Struct("M2", [F(0, "u8"), F(1, "u16", opt=True), F(3, "bool"), F(7, "u8", opt=True)], enc="map", note="optionals added to a map"),
    Enum("E1", [Variant(0, "A"), Variant(1, "B", [F(0, "u8")], "tuple")]),
    Enum("E2", [Variant(0, "A"), Variant(1, "B", [F(0, "u8")], "tuple"), Variant(2, "C", [F(0, "u16")], "tuple"), Variant(3, "D")], note="variants added"),
    Struct("H1", [F(0, "u8", nested="E1", opt=True), F(1, "u8")]), Struct("H2", [F(0, "u8", nested="E2", opt=True), F(1, "u8")], note="enum in optional field gains variants; sibling after it"),
    Enum("I1", [Variant(0, "A"), Variant(1, "B")], index_only=True),
    Enum("I2", [Variant(0, "A"), Variant(1, "B"), Variant(7, "C")], index_only=True, note="index_only enum gains a variant"),
    Struct("J1", [F(0, "u8", nested="I1", opt=True), F(1, "u8")]), Struct("J2", [F(0, "u8", nested="I2", opt=True), F(1, "u8")], note="index_only enum in optional field; sibling after it"),
    Enum("U1", [Variant(0, "A"), Variant(1, "B")]),
    Enum("U2", [Variant(0, "A", [F(0, "u8", opt=True), F(1, "bool", opt=True)], "struct"), Variant(1, "B", [F(0, "u16", opt=True)], "tuple")], note="unit variants turned into struct / tuple variants with optional fields"),
    Enum("UM1", [Variant(0, "A"), Variant(1, "B")], enc="map"),
    Enum("UM2", [Variant(0, "A", [F(0, "u8", opt=True), F(2, "bool", opt=True)], "struct"), Variant(1, "B", [F(1, "u16", opt=True)], "tuple")], enc="map", note="map-encoded unit variants turned into struct / tuple variants"),
    Struct("T1", [F(0, "u8"), F(2, "u16")]), Struct("T2", [F(0, "u8"), F(1, "u8", opt=True, tag=9), F(2, "u16")], note="TAGGED optional added at a gap index"),
    Struct("X1", [F(0, "u8"), F(1, "u8", nested="Inner"), F(2, "bool"), F(3, "u8", bytes_=True)], note="writer has fields 1 (a struct) and 3 (bytes) unknown to the reader"),
    Struct("X0", [F(0, "u8"), F(2, "bool")]),
    Struct("N1", [F(0, "u8")]), Struct("N2", [F(0, "u8"), F(1, "u16")], note="mandatory field added: decoding the old encoding must fail"),
    Struct("MX1", [F(0, "u8"), F(1, "u8", nested="Inner"), F(5, "u8", bytes_=True)], enc="map"), Struct("MX0", [F(0, "u8")], enc="map", note="map: unknown keys ignored"),
]

# (writer, reader, edit name); both directions are generated where the reverse is also documented-compatible
COMPAT_PAIRS = [
    ("Plain", "PlainR", "rename"), ("PlainR", "Plain", "rename"),
    ("A1", "A2", "add-optional-new-index"), ("A2", "A1", "drop-optional-new-index"),
    ("G1", "G2", "add-optional-gap-index"), ("G2", "G1", "drop-optional-gap-index"),
    ("M1", "M2", "add-optional-map"), ("M2", "M1", "drop-optional-map"),
    ("H1", "H2", "enum-variants-added(old writer)"), ("H2", "H1", "enum-variants-added(new writer, unknown variant => None)"),
    ("J1", "J2", "index-only-variants-added(old writer)"), ("J2", "J1", "index-only-variants-added(new writer, unknown variant => None)"),
    ("U1", "U2", "unit-to-struct-variant(old writer)"), ("U2", "U1", "unit-to-struct-variant(new writer)"),
    ("UM1", "UM2", "unit-to-struct-variant-map(old writer)"), ("UM2", "UM1", "unit-to-struct-variant-map(new writer)"),
    ("T1", "T2", "add-tagged-optional-gap-index"), ("T2", "T1", "drop-tagged-optional-gap-index"),
    ("X1", "X0", "unknown-fields-ignored"), ("MX1", "MX0", "unknown-map-keys-ignored"),
    ("N1", "N2", "missing-mandatory-is-error"),
]


def compat_harnesses(schemas):
    out = ["\npub mod c10 {\n    use super::*;\n"]
    for s in COMPAT_SCHEMAS:
        out.append(f"    pub mod s_{s.name.lower()} {{ use super::*; {nested_uses_c10(s)}\n{s.type_def()}\n    }}\n")
    for pi, (w, r, edit) in enumerate(COMPAT_PAIRS):
        W, R = schemas[w], schemas[r]
        uses = " ".join(sorted({type_use(x, schemas) for x in all_types(R, schemas)}))
        out.append(f"    pub mod p{pi:02d}_{w.lower()}_to_{r.lower()} {{\n        use super::*; {uses}\n")
        cases = []
        if W.kind == "enum":
            k = 0
            for v in W.variants:
                for (cls, pres, frame) in [LAYOUTS[0], LAYOUTS[1], LAYOUTS[4]]:
                    cases.append((k, cls, pres, frame, v)); k += 1
        else:
            for k, lay in enumerate(LAYOUTS):
                cases.append((k, lay[0], lay[1], lay[2], None))
        seen = set()
        for (k, cls, pres, frame, v) in cases:
            td, exp = td_case(W, R, schemas, sum(map(ord, w + r)) * 17 + k, cls, pres, frame, v)
            key = tuple(td.bytes)
            if key in seen:
                continue
            seen.add(key)
            doc = f"C10 {edit}: value written by {w} (layout {k}: widths={cls} presence={pres} frame={frame}) decoded as {r}"
            out.append(td_fn(f"c10_l{k}", td, exp, R, doc,
                             'if let Err(e) = &r { assert!(e.is_missing_value(), "not a missing-value error") }'))
        out.append("    }\n")
    out.append("}\n")
    return "".join(out)


def all_types(s, schemas, acc=None):
    acc = acc if acc is not None else []
    if s.name not in [x.name for x in acc]:
        acc.append(s)
    fs = s.fields if s.kind == "struct" else [f for v in s.variants for f in v.fields]
    for f in fs:
        if f.nested:
            all_types(schemas[f.nested], schemas, acc)
    return acc


def type_use(s, schemas):
    if s in COMPAT_SCHEMAS:
        return f"use crate::gen::c10::s_{s.name.lower()}::{s.name};"
    return f"use crate::gen::s_{s.name.lower()}::{s.name};"


def nested_uses_c10(s):
    fs = s.fields if s.kind == "struct" else [f for v in s.variants for f in v.fields]
    names = sorted({f.nested for f in fs if f.nested})
    out = []
    for n in names:
        if n in [c.name for c in COMPAT_SCHEMAS]:
            out.append(f"use crate::gen::c10::s_{n.lower()}::{n};")
        else:
            out.append(f"use crate::gen::s_{n.lower()}::{n};")
    return " ".join(out)


def big_harness(s, schemas):
    """>= 24 fields: only the length clause (C07), with a 128-byte cursor."""
    mod = f"s_{s.name.lower()}"
    return f"""
pub mod {mod} {{
    use super::*;
    {s.type_def()}
    {s.gen_fn()}
    pub mod {s.tier} {{
        use super::*;
        /// C07 at the 23/24 entry boundary of the map header (two-byte head).
        #[kani::proof]
        #[kani::unwind(4)]
        pub fn c07() {{
            let v = gen();
            let mut e = minicbor::Encoder::new(minicbor::encode::write::Cursor::new([0u8; 128]));
            assert!(e.encode(&v).is_ok());
            let pos = e.writer().position();
            let n = minicbor::CborLen::cbor_len(&v, &mut ());
            assert!(n == pos, "derived cbor_len differs from the number of bytes written");
            kani::cover!(pos == {s.maxlen(schemas)});
        }}
    }}
}}
"""


def harnesses(s, schemas):
    if getattr(s, "big", False):
        return big_harness(s, schemas)
    n = s.maxlen(schemas)
    assert n <= 30, (s.name, n)
    uw = max(12, n + 2)
    mod = f"s_{s.name.lower()}"
    skipstub = "crate::util::skip_r3_small"
    return f"""
pub mod {mod} {{
    use super::*;
    {nested_uses(s)}
    {s.type_def()}
    {s.gen_fn()}
    {s.ref_fn()}
    pub const MAXLEN: usize = {n};

    pub mod {s.tier} {{
        use super::*;
        /// C08: derived Encode bytes == documented format (R6), for every value x presence combination.
        #[kani::proof]
        #[kani::unwind({uw})]
        pub fn c08() {{
            let v = gen();
            let mut r = RefBuf::new();
            refenc(&v, &mut r);
            let (out, pos, ok) = enc_cap(&v);
            assert!(ok, "derived encode failed on a large enough buffer");
            assert!(pos == r.n, "derived encoding has a different length than the documented format");
            assert!(eq_cap(&out, &r.b), "derived encoding differs from the documented format");
            kani::cover!(pos == MAXLEN, "maximal encoding reached");
        }}

        /// C07: derived CborLen == bytes written by derived Encode.
        #[kani::proof]
        #[kani::unwind({uw})]
        pub fn c07() {{
            let v = gen();
            let (_, pos, ok) = enc_cap(&v);
            assert!(ok);
            let n = minicbor::CborLen::cbor_len(&v, &mut ());
            assert!(n == pos, "derived cbor_len differs from the number of bytes written");
            kani::cover!(pos == MAXLEN);
        }}

{td_harnesses(s, schemas)}
    }}
}}
"""


def main():
    schemas = {s.name: s for s in SCHEMAS + COMPAT_SCHEMAS}
    out = ["//! GENERATED by gen.py -- do not edit.  One module per schema row.\n",
           "#![allow(unused_variables, unused_mut, unused_parens, unused_assignments)]\n",
           "use crate::util::*;\nuse minicbor::Decoder;\n"]
    for s in SCHEMAS:
        out.append(harnesses(s, schemas))
    out.append(compat_harnesses(schemas))
    open("src/gen.rs", "w").write("".join(out))
    json.dump({"schemas": [s.describe() for s in SCHEMAS], "compat_schemas": [s.describe() for s in COMPAT_SCHEMAS],
               "compat_pairs": [{"writer": w, "reader": r, "edit": e} for (w, r, e) in COMPAT_PAIRS]}, open("schemas.json", "w"), indent=1)
    print("generated %d schemas" % len(SCHEMAS))


if __name__ == "__main__":
    main()
