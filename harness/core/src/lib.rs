//! Kani proof harnesses over the real minicbor crate (path dependency on /repo/minicbor).
//! One module per property of /verif/properties.jsonl.  Everything is `cfg(kani)`.
#![cfg_attr(not(feature = "std"), no_std)]
#![allow(unused_imports, dead_code, clippy::all)]
#![recursion_limit = "512"]
#![cfg_attr(all(kani, feature = "alloc"), feature(allocator_api))]

#[cfg(feature = "alloc")]
extern crate alloc;

#[cfg(kani)]
pub mod util;
#[cfg(kani)]
pub mod c05;
#[cfg(kani)]
pub mod types;
#[cfg(all(kani, feature = "alloc"))]
pub mod types_alloc;
#[cfg(kani)]
pub mod c06;
#[cfg(kani)]
pub mod c06_gen;
#[cfg(kani)]
pub mod c01b;
#[cfg(kani)]
pub mod c13;
#[cfg(kani)]
pub mod c03;
#[cfg(kani)]
pub mod c04;
#[cfg(all(kani, feature = "half"))]
pub mod c02;
#[cfg(all(kani, feature = "half"))]
pub mod c01t;
#[cfg(all(kani, feature = "half"))]
pub mod c07;
#[cfg(all(kani, feature = "half"))]
pub mod c12;
#[cfg(all(kani, feature = "half"))]
pub mod c11;
#[cfg(all(kani, feature = "half"))]
pub mod c11_gen;
#[cfg(kani)]
pub mod zz;
#[cfg(kani)]
mod replay;
