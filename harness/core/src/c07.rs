//! C07 — CborLen of tokens: for every Token variant (all payload values symbolic) the
//! computed length equals the number of bytes the encoder writes.
//! (Built-in types: `types::*::c07`; derived types: the derive harness crate.)
use crate::util::*;
use minicbor::data::{Int, Tag, Token};
use minicbor::encode::write::Cursor;
use minicbor::{CborLen, Encoder};

fn written(t: &Token) -> usize {
    let mut e = Encoder::new(Cursor::new([0u8; CAP]));
    assert!(e.encode(t).is_ok());
    e.writer().position()
}

macro_rules! tok_len {
    ($name:ident, $tok:expr) => {
        #[kani::proof]
        #[kani::unwind(10)]
        pub fn $name() {
            let t: Token = $tok;
            let n = t.cbor_len(&mut ());
            assert!(n == written(&t), "Token::cbor_len differs from the number of bytes written");
        }
    };
}
tok_len!(c07_tok_bool, Token::Bool(kani::any()));
tok_len!(c07_tok_u8, Token::U8(kani::any()));
tok_len!(c07_tok_u16, Token::U16(kani::any()));
tok_len!(c07_tok_u32, Token::U32(kani::any()));
tok_len!(c07_tok_u64, Token::U64(kani::any()));
tok_len!(c07_tok_i8, Token::I8(kani::any()));
tok_len!(c07_tok_i16, Token::I16(kani::any()));
tok_len!(c07_tok_i32, Token::I32(kani::any()));
tok_len!(c07_tok_i64, Token::I64(kani::any()));
tok_len!(c07_tok_int, Token::Int({ let v: i128 = kani::any(); kani::assume(v >= -(1i128 << 64) && v < (1i128 << 64)); Int::try_from(v).unwrap() }));
tok_len!(c07_tok_f16, Token::F16(f32::from_bits(kani::any())));
tok_len!(c07_tok_f32, Token::F32(f32::from_bits(kani::any())));
tok_len!(c07_tok_f64, Token::F64(f64::from_bits(kani::any())));
tok_len!(c07_tok_array, Token::Array(kani::any()));
tok_len!(c07_tok_map, Token::Map(kani::any()));
tok_len!(c07_tok_tag, Token::Tag(Tag::new(kani::any())));
tok_len!(c07_tok_simple, Token::Simple(kani::any()));

macro_rules! tok_marker {
    ($name:ident, $tok:expr) => {
        #[kani::proof]
        #[kani::unwind(10)]
        pub fn $name() { let t: Token = $tok; assert!(t.cbor_len(&mut ()) == 1 && written(&t) == 1); }
    };
}
tok_marker!(c07_tok_break, Token::Break);
tok_marker!(c07_tok_null, Token::Null);
tok_marker!(c07_tok_undefined, Token::Undefined);
tok_marker!(c07_tok_begin_bytes, Token::BeginBytes);
tok_marker!(c07_tok_begin_string, Token::BeginString);
tok_marker!(c07_tok_begin_array, Token::BeginArray);
tok_marker!(c07_tok_begin_map, Token::BeginMap);

/// Bytes / String tokens: payload of up to 4 symbolic bytes (text: up to 4 ASCII bytes).
#[kani::proof]
#[kani::unwind(10)]
pub fn c07_tok_bytes() {
    let p: [u8; 4] = kani::any();
    let n: usize = kani::any();
    kani::assume(n <= 4);
    let t = Token::Bytes(&p[..n]);
    assert!(t.cbor_len(&mut ()) == written(&t), "Token::Bytes: cbor_len differs from the number of bytes written");
    kani::cover!(n == 4 && p[0] >= 24);
}

#[kani::proof]
#[kani::unwind(10)]
pub fn c07_tok_string() {
    let p: [u8; 4] = kani::any();
    let n: usize = kani::any();
    kani::assume(n <= 4);
    kani::assume(vref::utf8_valid4(&p, n));
    let s = unsafe { core::str::from_utf8_unchecked(&p[..n]) };
    let t = Token::String(s);
    assert!(t.cbor_len(&mut ()) == written(&t));
    kani::cover!(n == 4);
}
