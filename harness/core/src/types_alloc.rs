//! Rows of the codec table that need `alloc` / `std` (thorough tier).  Heap collections are
//! bounded to <= 2 elements, strings / byte vectors to <= 3 bytes.
use crate::util::*;
use alloc::borrow::Cow;
use alloc::boxed::Box;
use alloc::collections::{BTreeMap, BTreeSet, BinaryHeap, LinkedList, VecDeque};
use alloc::ffi::CString;
use alloc::string::String;
use alloc::vec::Vec;
use minicbor::bytes::*;
use minicbor::{CborLen, Decoder, Encoder};

macro_rules! row {
    ($m:ident, $T:ty, len = $N:expr, unwind = $uw:expr, $(n2: $n2:ident,)? $(fix0: $fix0:expr,)?
     gen: |$n:ident| $gen:expr, refenc: |$v:ident, $r:ident| $refenc:block, eq: |$a:ident, $b:ident| $eq:expr) => {
        pub mod $m { pub mod t {
            use super::super::*;
            /// `$n` = number of elements / bytes (ignored by fixed-size types)
            fn gen_n($n: usize) -> $T { $gen }
            fn gen() -> $T { let n: usize = kani::any(); kani::assume(n <= 2); gen_n(n) }
            fn refenc($v: &$T, $r: &mut RefBuf) $refenc
            fn same($a: &$T, $b: &$T) -> bool { $eq }

            #[kani::proof]
            #[kani::unwind($uw)]
            pub fn c03() {
                let v = gen();
                let mut r = RefBuf::new();
                refenc(&v, &mut r);
                let (out, pos, ok) = enc_cap(&v);
                assert!(ok);
                assert!(pos == r.n, "number of bytes written differs from the reference encoding");
                assert!(eq_cap(&out, &r.b), "bytes differ from the reference encoding");
                let n = v.cbor_len(&mut ());
                assert!(n == pos, "cbor_len differs from the number of bytes written");
                core::mem::forget(v);
            }

            /// round trip with a CONCRETE element count (symbolic-size heap allocation in the decoder
            /// exhausts CBMC's memory; contents stay symbolic)
            fn c01_at(n: usize) {
                let v = gen_n(n);
                let (out, pos, ok) = enc_cap(&v);
                assert!(ok);
                assert!(pos <= $N);
                #[allow(unused_mut)]
                let mut buf: [u8; $N] = out[..$N].try_into().unwrap();
                assert!(buf[0] == out[0]);
                $( assert!(buf[0] == $fix0, "first byte"); buf[0] = $fix0; )?
                let mut d = Decoder::new(&buf[..]);
                let r = d.decode::<$T>();
                assert!(r.is_ok(), "decoding the produced bytes failed");
                let w = r.unwrap();
                assert!(same(&v, &w), "decoded value differs");
                assert!(d.position() == pos, "decoder did not consume exactly the produced bytes");
                core::mem::forget(v);
                core::mem::forget(w);
            }
            #[kani::proof]
            #[kani::unwind($uw)]
            #[kani::stub(minicbor::decode::Decoder::skip, crate::util::skip_unreachable)]
            pub fn c01_n0() { c01_at(0) }
            #[kani::proof]
            #[kani::unwind($uw)]
            #[kani::stub(minicbor::decode::Decoder::skip, crate::util::skip_unreachable)]
            pub fn c01_n1() { c01_at(1) }
            $(
            #[kani::proof]
            #[kani::unwind($uw)]
            #[kani::stub(minicbor::decode::Decoder::skip, crate::util::skip_unreachable)]
            pub fn $n2() { c01_at(2) }
            )?
        }}
    };
}

fn small_vec(n: usize) -> Vec<u8> {
    let mut v = Vec::with_capacity(2);
    if n > 0 { v.push(kani::any()) }
    if n > 1 { v.push(kani::any()) }
    v
}
fn ref_arr_u8(it: &[u8], r: &mut RefBuf) { r.head(4, it.len() as u64); let mut i = 0; while i < it.len() { r.uint(it[i] as u64); i += 1; } }

row!(vec_u8, Vec<u8>, len = 5, unwind = 10,
    gen: |n| small_vec(n), refenc: |v, r| { ref_arr_u8(v, r) }, eq: |a, b| a == b);
row!(boxed_u16, Box<u16>, len = 3, unwind = 10,
    gen: |_n| Box::new(kani::any()), refenc: |v, r| { r.uint(**v as u64) }, eq: |a, b| a == b);
row!(bytevec, ByteVec, len = 3, unwind = 10, n2: c01_n2,
    gen: |n| ByteVec::from(small_vec(n)), refenc: |v, r| { r.head(2, v.len() as u64); r.raw(v) }, eq: |a, b| a == b);
row!(string_, String, len = 4, unwind = 10, n2: c01_n2,
    gen: |n| { let p: [u8; 4] = kani::any(); kani::assume(vref::utf8_valid4(&p, n));
           String::from(unsafe { core::str::from_utf8_unchecked(&p[..n]) }) },
    refenc: |v, r| { r.head(3, v.len() as u64); r.raw(v.as_bytes()) }, eq: |a, b| a == b);
row!(vecdeque_u8, VecDeque<u8>, len = 5, unwind = 10,
    gen: |n| VecDeque::from(small_vec(n)),
    refenc: |v, r| { r.head(4, v.len() as u64); let mut i = 0; while i < v.len() { r.uint(v[i] as u64); i += 1; } }, eq: |a, b| a == b);
// BTreeSet / BTreeMap / BinaryHeap / LinkedList rows and `Vec`/`VecDeque` with 2 elements were tried: the B-tree and
// growth code exhaust 12 GB (pointer-rich heaps): outside the bound, stated in the evidence.

#[cfg(feature = "std")]
pub mod with_std {
    use super::*;
    use std::net::*;
    row!(ipv4, Ipv4Addr, len = 5, unwind = 10, fix0: 0x44,
        gen: |_n| Ipv4Addr::from(kani::any::<[u8; 4]>()),
        refenc: |v, r| { r.byte(0x44); r.raw(&v.octets()) }, eq: |a, b| a == b);
    row!(ipv6, Ipv6Addr, len = 17, unwind = 19, fix0: 0x50,
        gen: |_n| Ipv6Addr::from(kani::any::<[u8; 16]>()),
        refenc: |v, r| { r.byte(0x50); r.raw(&v.octets()) }, eq: |a, b| a == b);
    row!(ipaddr, IpAddr, len = 19, unwind = 21, fix0: 0x82,
        gen: |_n| { if kani::any() { IpAddr::V4(Ipv4Addr::from(kani::any::<[u8; 4]>())) } else { IpAddr::V6(Ipv6Addr::from(kani::any::<[u8; 16]>())) } },
        refenc: |v, r| { r.byte(0x82); match v { IpAddr::V4(a) => { r.byte(0); r.byte(0x44); r.raw(&a.octets()) } IpAddr::V6(a) => { r.byte(1); r.byte(0x50); r.raw(&a.octets()) } } },
        eq: |a, b| a == b);
    row!(sockv4, SocketAddrV4, len = 9, unwind = 11, fix0: 0x82,
        gen: |_n| SocketAddrV4::new(Ipv4Addr::from(kani::any::<[u8; 4]>()), kani::any()),
        refenc: |v, r| { r.byte(0x82); r.byte(0x44); r.raw(&v.ip().octets()); r.uint(v.port() as u64) }, eq: |a, b| a == b);
    // SystemTime (Duration + checked_add on decode) exhausts 12 GB in the round trip: outside the bound.
}
