//! C05 — integer decoding is value-preserving across widths; never wraps or truncates.
//!
//! Input shape H9: one head of 9 fully symbolic bytes and a symbolic length <= 9, i.e.
//! every (sign, width, argument) triple, every truncation, every non-integer head.
use crate::util::*;
use core::num::*;
use minicbor::data::{Int, Type};
use minicbor::Decoder;
use vref::*;

/// Oracle: the mathematical value of the integer item at the start of `buf`, if any.
fn int_item(buf: &[u8]) -> Option<(i128, usize)> {
    match read_head(buf, 0) {
        HeadR::Ok(h) if h.major <= 1 && h.ai != 31 => Some((int_value(h.major, h.arg), h.width)),
        _ => None,
    }
}

macro_rules! int_accessor {
    ($name:ident, $t:ty, |$d:ident| $call:expr, |$x:ident| $conv:expr, |$v:ident| $fits:expr) => {
        #[kani::proof]
        pub fn $name() {
            let (buf, len) = any_buf::<9>();
            let mut $d = Decoder::new(&buf[..len]);
            let r: Result<$t, minicbor::decode::Error> = $call;
            match int_item(&buf[..len]) {
                Some(($v, w)) => {
                    let fits: bool = $fits;
                    match r {
                        Ok($x) => {
                            assert!(fits, "accepted an unrepresentable value");
                            let got: i128 = $conv;
                            assert!(got == $v, "value differs from the mathematical value");
                            assert!($d.position() == w, "position != head width");
                            kani::cover!(w == 9, "8-byte argument accepted");
                        }
                        Err(_) => {
                            // the statement asks for "an error"; the class differs by case
                            // (overflow, or type mismatch for a negative read as unsigned)
                            assert!(!fits, "rejected a representable value");
                        }
                    }
                }
                None => {
                    assert!(r.is_err(), "non-integer or truncated head accepted");
                }
            }
            kani::cover!(true);
        }
    };
}

macro_rules! prim {
    ($name:ident, $t:ident) => {
        int_accessor!($name, $t, |d| d.$t(), |x| x as i128, |v| v >= $t::MIN as i128 && v <= $t::MAX as i128);
    };
}
prim!(c05_u8, u8);
prim!(c05_u16, u16);
prim!(c05_u32, u32);
prim!(c05_u64, u64);
prim!(c05_i8, i8);
prim!(c05_i16, i16);
prim!(c05_i32, i32);
prim!(c05_i64, i64);

int_accessor!(c05_int, Int, |d| d.int(), |x| i128::from(x), |_v| true);
int_accessor!(c05_usize, usize, |d| d.decode::<usize>(), |x| x as i128, |v| v >= 0 && v <= usize::MAX as i128);
int_accessor!(c05_isize, isize, |d| d.decode::<isize>(), |x| x as i128, |v| v >= isize::MIN as i128 && v <= isize::MAX as i128);
int_accessor!(c05_char, char, |d| d.char(), |x| x as u32 as i128,
    |v| v >= 0 && v <= 0x10ffff && !(v >= 0xd800 && v <= 0xdfff));

macro_rules! nonzero {
    ($name:ident, $nz:ty, $t:ident) => {
        #[kani::proof]
        pub fn $name() {
            let (buf, len) = any_buf::<9>();
            let mut d = Decoder::new(&buf[..len]);
            let r = d.decode::<$nz>();
            match int_item(&buf[..len]) {
                Some((v, w)) => {
                    let fits = v >= $t::MIN as i128 && v <= $t::MAX as i128 && v != 0;
                    match r {
                        Ok(x) => {
                            assert!(fits);
                            assert!(x.get() as i128 == v);
                            assert!(d.position() == w);
                        }
                        Err(e) => {
                            assert!(!fits);
                            if v == 0 { assert!(e.is_message()) }
                        }
                    }
                }
                None => assert!(r.is_err()),
            }
            kani::cover!(true);
        }
    };
}
nonzero!(c05_nz_u8, NonZeroU8, u8);
nonzero!(c05_nz_u16, NonZeroU16, u16);
nonzero!(c05_nz_u32, NonZeroU32, u32);
nonzero!(c05_nz_u64, NonZeroU64, u64);
nonzero!(c05_nz_usize, NonZeroUsize, usize);
nonzero!(c05_nz_i8, NonZeroI8, i8);
nonzero!(c05_nz_i16, NonZeroI16, i16);
nonzero!(c05_nz_i32, NonZeroI32, i32);
nonzero!(c05_nz_i64, NonZeroI64, i64);
nonzero!(c05_nz_isize, NonZeroIsize, isize);

/// `datatype()` on an integer head names a type whose accessor accepts the item
/// (one harness per reported type, so that each query runs a single accessor).
macro_rules! datatype_names {
    ($name:ident, $ty:ident, |$d:ident| $call:expr, |$x:ident| $conv:expr) => {
        #[kani::proof]
        pub fn $name() {
            let (buf, len) = any_buf::<9>();
            let d0 = Decoder::new(&buf[..len]);
            if let Some((v, w)) = int_item(&buf[..len]) {
                let t = d0.datatype();
                assert!(matches!(t, Ok(Type::U8) | Ok(Type::U16) | Ok(Type::U32) | Ok(Type::U64) | Ok(Type::I8)
                    | Ok(Type::I16) | Ok(Type::I32) | Ok(Type::I64) | Ok(Type::Int)),
                    "datatype() of a complete integer head is not an integer type");
                if let Ok(Type::$ty) = t {
                    let mut $d = Decoder::new(&buf[..len]);
                    let r = $call;
                    assert!(r.is_ok(), "accessor named by datatype() rejects the item");
                    let $x = r.unwrap();
                    let got: i128 = $conv;
                    assert!(got == v);
                    assert!($d.position() == w);
                    kani::cover!(true, "type reported");
                }
            }
            kani::cover!(true);
        }
    };
}
datatype_names!(c05_datatype_u8, U8, |d| d.u8(), |x| x as i128);
datatype_names!(c05_datatype_u16, U16, |d| d.u16(), |x| x as i128);
datatype_names!(c05_datatype_u32, U32, |d| d.u32(), |x| x as i128);
datatype_names!(c05_datatype_u64, U64, |d| d.u64(), |x| x as i128);
datatype_names!(c05_datatype_i8, I8, |d| d.i8(), |x| x as i128);
datatype_names!(c05_datatype_i16, I16, |d| d.i16(), |x| x as i128);
datatype_names!(c05_datatype_i32, I32, |d| d.i32(), |x| x as i128);
datatype_names!(c05_datatype_i64, I64, |d| d.i64(), |x| x as i128);
datatype_names!(c05_datatype_int, Int, |d| d.int(), |x| i128::from(x));

// ---- Int conversions over all values -------------------------------------------------

macro_rules! int_from {
    ($name:ident, $t:ty) => {
        #[kani::proof]
        pub fn $name() {
            let x: $t = kani::any();
            let i = Int::from(x);
            assert!(i128::from(i) == x as i128);
            let back = <$t>::try_from(i);
            assert!(back.is_ok() && back.unwrap() == x);
        }
    };
}
int_from!(c05_int_from_u8, u8);
int_from!(c05_int_from_u16, u16);
int_from!(c05_int_from_u32, u32);
int_from!(c05_int_from_u64, u64);
int_from!(c05_int_from_i8, i8);
int_from!(c05_int_from_i16, i16);
int_from!(c05_int_from_i32, i32);
int_from!(c05_int_from_i64, i64);

#[kani::proof]
pub fn c05_int_tryfrom_i128_u128() {
    let x: i128 = kani::any();
    let r = Int::try_from(x);
    let in_range = x >= -(1i128 << 64) && x <= (1i128 << 64) - 1;
    match r {
        Ok(i) => { assert!(in_range); assert!(i128::from(i) == x) }
        Err(_) => assert!(!in_range),
    }
    let y: u128 = kani::any();
    match Int::try_from(y) {
        Ok(i) => { assert!(y <= u64::MAX as u128); assert!(i128::from(i) == y as i128) }
        Err(_) => assert!(y > u64::MAX as u128),
    }
    kani::cover!(x == -(1i128 << 64));
}

/// Build an arbitrary `Int` through the public API (decoding a symbolic 9-byte head).
fn any_int() -> (Int, i128) {
    let x: i128 = kani::any();
    kani::assume(x >= -(1i128 << 64) && x <= (1i128 << 64) - 1);
    (Int::try_from(x).unwrap(), x)
}

macro_rules! int_into {
    ($name:ident, $t:ty) => {
        #[kani::proof]
        pub fn $name() {
            let (i, v) = any_int();
            let fits = v >= <$t>::MIN as i128 && v <= <$t>::MAX as i128;
            match <$t>::try_from(i) {
                Ok(x) => { assert!(fits); assert!(x as i128 == v) }
                Err(_) => assert!(!fits),
            }
        }
    };
}
int_into!(c05_int_into_u8, u8);
int_into!(c05_int_into_u16, u16);
int_into!(c05_int_into_u32, u32);
int_into!(c05_int_into_u64, u64);
int_into!(c05_int_into_i8, i8);
int_into!(c05_int_into_i16, i16);
int_into!(c05_int_into_i32, i32);
int_into!(c05_int_into_i64, i64);

#[kani::proof]
pub fn c05_int_into_u128_i128() {
    let (i, v) = any_int();
    match u128::try_from(i) {
        Ok(x) => { assert!(v >= 0); assert!(x as i128 == v) }
        Err(_) => assert!(v < 0),
    }
    assert!(i128::from(i) == v);
    // Int covers exactly [-2^64, 2^64-1]
    assert!(i128::from(minicbor::data::MAX_INT) == (1i128 << 64) - 1);
    assert!(i128::from(minicbor::data::MIN_INT) == -(1i128 << 64));
}
