//! Driver self-test: a harness that must FAIL and whose counterexample must replay natively.
use crate::util::*;
use minicbor::Decoder;

#[kani::proof]
pub fn zz_fail_probe() {
    let (buf, len) = any_buf::<3>();
    let mut d = Decoder::new(&buf[..len]);
    let r = d.u8();
    kani::cover!(r.is_ok());
    if let Ok(x) = r { assert!(x != 77, "probe"); }
}
