//! Driver self-test: a harness that must FAIL and whose counterexample must replay natively.
use crate::util::*;
use minicbor::Decoder;

#[kani::proof]
pub fn zz_fail_probe() {
    let (buf, len) = any_buf::<3>();
    let mut d = Decoder::new(&buf[..len]);
    let r = d.u8();
    kani::cover!(r.is_ok());
    if let Ok(x) = r { assert!(x != 77, "probe"); }
}

#[kani::proof]
pub fn zz_duration_new() {
    let s: u64 = kani::any();
    let n: u32 = kani::any();
    kani::assume(s < u64::MAX - 10);
    let d = core::time::Duration::new(s, n);
    assert!(d.subsec_nanos() < 1_000_000_000);
    assert!(d.as_secs() >= s);
}

#[kani::proof]
#[kani::unwind(10)]
#[kani::stub(minicbor::decode::Decoder::skip, crate::util::skip_unreachable)]
pub fn zz_range_td() {
    let a: [u8; 4] = kani::any();
    let buf = [0x82, a[0], a[1], a[2], a[3]];
    let mut d = Decoder::new(&buf[..]);
    let r = d.decode::<core::ops::Range<u8>>();
    if let Ok(x) = r { kani::cover!(x.start == 200 && x.end == 7); }
}

#[kani::proof]
#[kani::unwind(10)]
#[kani::stub(minicbor::decode::Decoder::skip, crate::util::skip_unreachable)]
pub fn zz_range_enc() {
    let v = core::ops::Range::<u8> { start: kani::any(), end: kani::any() };
    let (out, pos, ok) = enc_cap(&v);
    let buf = [0x82, out[1], out[2], out[3], out[4]];
    let mut d = Decoder::new(&buf[..]);
    let r = d.decode::<core::ops::Range<u8>>();
    assert!(r.is_ok());
    assert!(r.unwrap() == v);
    assert!(d.position() == pos);
}

fn range_prefix_k(k: usize) {
    let v = core::ops::Range::<u8> { start: kani::any(), end: kani::any() };
    let (out, pos, ok) = enc_cap(&v);
    let buf = [0x82, out[1], out[2], out[3], out[4]];
    if k < pos {
        let mut d = Decoder::new(&buf[..k]);
        let r = d.decode::<core::ops::Range<u8>>();
        assert!(r.is_err());
        if let Err(e) = r { assert!(e.is_end_of_input()); }
    }
}
#[kani::proof]
#[kani::unwind(10)]
#[kani::stub(minicbor::decode::Decoder::skip, crate::util::skip_unreachable)]
pub fn zz_range_pfx3() { range_prefix_k(3) }
#[kani::proof]
#[kani::unwind(10)]
#[kani::stub(minicbor::decode::Decoder::skip, crate::util::skip_unreachable)]
pub fn zz_range_pfx1() { range_prefix_k(1) }
#[kani::proof]
#[kani::unwind(10)]
#[kani::stub(minicbor::decode::Decoder::skip, crate::util::skip_unreachable)]
pub fn zz_range_pfx_all() { range_prefix_k(0); range_prefix_k(1); range_prefix_k(2); range_prefix_k(3); range_prefix_k(4); }

#[kani::proof]
#[kani::unwind(10)]
#[kani::stub(minicbor::decode::Decoder::skip, crate::util::skip_unreachable)]
pub fn zz_range_pfx_sym() {
    let v = core::ops::Range::<u8> { start: kani::any(), end: kani::any() };
    let (out, pos, ok) = enc_cap(&v);
    let buf = [0x82, out[1], out[2], out[3], out[4]];
    let k: usize = kani::any();
    kani::assume(k < pos);
    let mut d = Decoder::new(&buf[..k]);
    let r = d.decode::<core::ops::Range<u8>>();
    assert!(r.is_err());
    if let Err(e) = r { assert!(e.is_end_of_input()); }
}

#[cfg(feature = "half")]
#[kani::proof]
#[kani::unwind(16)]
pub fn zz_tok_1c_first() {
    let rest: [u8; 3] = kani::any();
    let buf = [0x1c, rest[0], rest[1], rest[2]];
    let mut d = Decoder::new(&buf[..]);
    let r = { let mut t = d.tokens(); t.next() };
    assert!(matches!(r, Some(Err(_))));
    assert!(d.position() == 4);
}
#[cfg(feature = "half")]
#[kani::proof]
#[kani::unwind(16)]
pub fn zz_tok_1c_datatype() {
    let rest: [u8; 3] = kani::any();
    let buf = [0x1c, rest[0], rest[1], rest[2]];
    let d = Decoder::new(&buf[..]);
    let r = d.datatype();
    assert!(matches!(r, Ok(minicbor::data::Type::Unknown(0x1c))));
}
#[cfg(feature = "half")]
#[kani::proof]
#[kani::unwind(16)]
pub fn zz_tok_1c_token() {
    let rest: [u8; 3] = kani::any();
    let buf = [0x1c, rest[0], rest[1], rest[2]];
    let mut d = Decoder::new(&buf[..]);
    let r = d.decode::<minicbor::data::Token>();
    assert!(r.is_err());
}

#[cfg(feature = "alloc")]
#[kani::proof]
#[kani::unwind(5)]
pub fn zz_skip_concrete_alloc() {
    let buf = [0x82u8, 0x9f, 0xff, 0x00];
    let mut d = Decoder::new(&buf[..]);
    assert!(d.skip().is_ok());
    assert!(d.position() == 4);
}
#[cfg(feature = "alloc")]
#[kani::proof]
#[kani::unwind(5)]
pub fn zz_vec_stack_ops() {
    let mut v: alloc::vec::Vec<Option<u64>> = alloc::vec::Vec::new();
    let n: u8 = kani::any();
    if n & 1 == 1 { v.push(None) }
    if n & 2 == 2 { v.push(Some(3)) }
    if let Some(Some(x)) = v.last_mut() { *x -= 1 }
    while let Some(Some(0)) = v.last() { v.pop(); }
    assert!(v.len() <= 2);
}
