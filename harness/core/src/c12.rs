//! C12 — floats survive bit-exactly; half precision converts per IEEE 754.
//! No bound inside the domain: all 2^16 / 2^32 / 2^64 bit patterns are symbolic.
use crate::util::*;
use minicbor::encode::write::Cursor;
use minicbor::{Decoder, Encoder};
use vref::*;

fn enc<const N: usize>(f: impl FnOnce(&mut Encoder<Cursor<[u8; N]>>) -> bool) -> ([u8; N], usize) {
    let mut e = Encoder::new(Cursor::new([0u8; N]));
    let ok = f(&mut e);
    assert!(ok);
    let c = e.into_writer();
    let p = c.position();
    (c.into_inner(), p)
}

/// f32: encode -> `fa` + big-endian bits; decode gives the identical pattern; f64() widens exactly;
#[kani::proof]
pub fn c12_f32_roundtrip_bits() {
    let bits: u32 = kani::any();
    let x = f32::from_bits(bits);
    let (b, n) = enc::<5>(|e| e.f32(x).is_ok());
    assert!(n == 5 && b[0] == 0xfa);
    assert!(u32::from_be_bytes([b[1], b[2], b[3], b[4]]) == bits, "encoded payload differs from the bit pattern");
    let mut d = Decoder::new(&b[..]);
    let y = d.f32();
    assert!(y.is_ok() && y.unwrap().to_bits() == bits, "f32 does not round-trip bit-exactly");
    assert!(d.position() == 5);
    // reading the narrower float through the wider accessor is exact
    let mut d = Decoder::new(&b[..]);
    let z = d.f64();
    assert!(z.is_ok());
    let z = z.unwrap();
    if x.is_nan() { assert!(z.is_nan()) } else { assert!(z.to_bits() == (x as f64).to_bits() && z == x as f64) }
    assert!(d.position() == 5);
    kani::cover!(x.is_nan());
    kani::cover!(bits == 0x8000_0000);
}

/// f32 item is never accepted by f16(); f64 item never by f32() / f16().
#[kani::proof]
pub fn c12_wider_never_accepted_by_narrower() {
    let a: [u8; 8] = kani::any();
    let b32 = [0xfa, a[0], a[1], a[2], a[3]];
    let b64 = [0xfb, a[0], a[1], a[2], a[3], a[4], a[5], a[6], a[7]];
    let mut d = Decoder::new(&b32[..]);
    let r = d.f16();
    assert!(r.is_err(), "f16() accepted an f32 item");
    let mut d = Decoder::new(&b64[..]);
    let r = d.f32();
    assert!(r.is_err(), "f32() accepted an f64 item");
    let mut d = Decoder::new(&b64[..]);
    let r = d.f16();
    assert!(r.is_err(), "f16() accepted an f64 item");
    // also through the Decode impls
    let mut d = Decoder::new(&b64[..]);
    assert!(d.decode::<f32>().is_err());
    kani::cover!(true);
}

#[kani::proof]
pub fn c12_f64_roundtrip_bits() {
    let bits: u64 = kani::any();
    let x = f64::from_bits(bits);
    let (b, n) = enc::<9>(|e| e.f64(x).is_ok());
    assert!(n == 9 && b[0] == 0xfb);
    assert!(u64::from_be_bytes([b[1], b[2], b[3], b[4], b[5], b[6], b[7], b[8]]) == bits);
    let mut d = Decoder::new(&b[..]);
    let y = d.f64();
    assert!(y.is_ok() && y.unwrap().to_bits() == bits, "f64 does not round-trip bit-exactly");
    assert!(d.position() == 9);
    kani::cover!(x.is_nan());
}

/// Every half pattern decodes to exactly the real value it denotes (R5), through f16(), f32(), f64().
#[kani::proof]
pub fn c12_f16_decode_all_patterns() {
    let h: u16 = kani::any();
    let b = [0xf9, (h >> 8) as u8, h as u8];
    let want = f32::from_bits(half_to_f32_bits(h));
    let is_nan = (h >> 10) & 0x1f == 0x1f && h & 0x3ff != 0;
    let mut d = Decoder::new(&b[..]);
    let r = d.f16();
    assert!(r.is_ok());
    let x = r.unwrap();
    assert!(d.position() == 3);
    if is_nan { assert!(x.is_nan(), "NaN pattern decoded to a number") }
    else { assert!(x.to_bits() == want.to_bits(), "half pattern decoded to a different value") }
    let mut d = Decoder::new(&b[..]);
    let r = d.f32();
    assert!(r.is_ok());
    let y = r.unwrap();
    if is_nan { assert!(y.is_nan()) } else { assert!(y.to_bits() == want.to_bits()) }
    assert!(d.position() == 3);
    let mut d = Decoder::new(&b[..]);
    let r = d.f64();
    assert!(r.is_ok());
    let z = r.unwrap();
    if is_nan { assert!(z.is_nan()) } else { assert!(z.to_bits() == (want as f64).to_bits()) }
    assert!(d.position() == 3);
    kani::cover!(is_nan);
    kani::cover!(h == 0x0001);
    kani::cover!(h == 0xfbff);
}

/// Explicit half-precision encoding: round-to-nearest-even per IEEE 754 (R5) for all 2^32 f32 patterns.
#[kani::proof]
pub fn c12_f16_encode_rne_all_f32() {
    let bits: u32 = kani::any();
    let x = f32::from_bits(bits);
    let (b, n) = enc::<3>(|e| e.f16(x).is_ok());
    assert!(n == 3 && b[0] == 0xf9);
    let got = ((b[1] as u16) << 8) | b[2] as u16;
    let want = f32_to_half_rne(bits);
    if x.is_nan() {
        assert!((got >> 10) & 0x1f == 0x1f && got & 0x3ff != 0, "NaN was not encoded as NaN");
    } else {
        assert!(got == want, "not the nearest-even half-precision value");
        // overflow threshold and sign
        let mag = f32::from_bits(bits & 0x7fff_ffff);
        if mag >= 65520.0 { assert!(got & 0x7fff == 0x7c00) }
        if mag < 65520.0 { assert!(got & 0x7fff != 0x7c00) }
        assert!((got >> 15) as u32 == bits >> 31);
    }
    kani::cover!(x.is_nan());
    kani::cover!(bits == 0x477f_e001, "just above f16::MAX");
}

/// Exact for every half-representable value: f16 -> f32 -> encode f16 gives the same pattern.
#[kani::proof]
pub fn c12_f16_encode_exact_on_representable() {
    let h: u16 = kani::any();
    let is_nan = (h >> 10) & 0x1f == 0x1f && h & 0x3ff != 0;
    kani::assume(!is_nan);
    let x = f32::from_bits(half_to_f32_bits(h));
    let (b, n) = enc::<3>(|e| e.f16(x).is_ok());
    assert!(n == 3 && b[0] == 0xf9);
    assert!((((b[1] as u16) << 8) | b[2] as u16) == h, "half-representable value not encoded exactly");
    kani::cover!(h == 0x8000);
}
