//! C01 — round trip of `Token` values: every variant, all payload values symbolic; the decoded
//! token is value-equal (integer tokens compared by numeric value, floats bitwise) and the
//! decoder consumed exactly the bytes produced.
use crate::util::*;
use minicbor::data::{Int, Tag, Token};
use minicbor::Decoder;

fn int_of(t: &Token) -> Option<i128> {
    Some(match *t {
        Token::U8(n) => n as i128, Token::U16(n) => n as i128, Token::U32(n) => n as i128, Token::U64(n) => n as i128,
        Token::I8(n) => n as i128, Token::I16(n) => n as i128, Token::I32(n) => n as i128, Token::I64(n) => n as i128,
        Token::Int(n) => i128::from(n),
        _ => return None,
    })
}

fn value_equal(a: &Token, b: &Token) -> bool {
    if let (Some(x), Some(y)) = (int_of(a), int_of(b)) { return x == y }
    match (*a, *b) {
        (Token::F16(x), Token::F16(y)) | (Token::F32(x), Token::F32(y)) => x.to_bits() == y.to_bits() || (x.is_nan() && y.is_nan()),
        (Token::F64(x), Token::F64(y)) => x.to_bits() == y.to_bits(),
        _ => *a == *b,
    }
}

/// `first`: when given, the value is constrained to one head-width class, the (then constant)
/// initial byte is asserted and re-concretised so that `Token::decode`'s 26-arm dispatch folds
/// (a symbolic initial byte makes CBMC expand every arm: > 300 s / OOM, measured).
macro_rules! tok_rt {
    ($name:ident, $n:expr, $tok:expr $(, first = $first:expr)?) => {
        #[kani::proof]
        #[kani::unwind(12)]
        pub fn $name() {
            let t: Token = $tok;
            let (out, pos, ok) = enc_cap(&t);
            assert!(ok && pos <= $n);
            #[allow(unused_mut)]
            let mut buf: [u8; $n] = out[..$n].try_into().unwrap();
            $( assert!(buf[0] == $first, "initial byte of this width class"); buf[0] = $first; )?
            let mut d = Decoder::new(&buf[..]);
            let r = d.decode::<Token>();
            assert!(r.is_ok(), "token produced by the encoder is rejected by the decoder");
            let u = r.unwrap();
            assert!(value_equal(&t, &u), "decoded token is not value-equal");
            assert!(d.position() == pos, "decoder did not consume exactly the produced bytes");
        }
    };
}
fn ge<T: PartialOrd + kani::Arbitrary>(lo: T) -> T { let x: T = kani::any(); kani::assume(x >= lo); x }
fn lt<T: PartialOrd + kani::Arbitrary>(hi: T) -> T { let x: T = kani::any(); kani::assume(x < hi); x }
fn any_int_in(lo: i128, hi: i128) -> Int { let v: i128 = kani::any(); kani::assume(v >= lo && v <= hi); Int::try_from(v).unwrap() }

tok_rt!(c01_q_tok_bool_t, 1, Token::Bool(true), first = 0xf5);
tok_rt!(c01_q_tok_bool_f, 1, Token::Bool(false), first = 0xf4);
tok_rt!(c01_q_tok_u8_w1, 2, Token::U8(ge(24)), first = 0x18);
tok_rt!(c01_q_tok_u8_23, 2, Token::U8(23), first = 0x17);
tok_rt!(c01_q_tok_u16_w2, 3, Token::U16(ge(256)), first = 0x19);
tok_rt!(c01_q_tok_u32_w4, 5, Token::U32(ge(65536)), first = 0x1a);
tok_rt!(c01_q_tok_u64_w8, 9, Token::U64(ge(1 << 32)), first = 0x1b);
tok_rt!(c01_q_tok_i8_w1, 2, Token::I8(lt(-24)), first = 0x38);
tok_rt!(c01_q_tok_i8_m1, 2, Token::I8(-1), first = 0x20);
tok_rt!(c01_q_tok_i16_w2, 3, Token::I16(lt(-256)), first = 0x39);
tok_rt!(c01_q_tok_i32_w4, 5, Token::I32(lt(-65536)), first = 0x3a);
tok_rt!(c01_q_tok_i64_w8, 9, Token::I64(lt(-(1i64 << 32))), first = 0x3b);
tok_rt!(c01_q_tok_int_neg_w8, 9, Token::Int(any_int_in(-(1i128 << 64), -(1i128 << 32) - 1)), first = 0x3b);
tok_rt!(c01_q_tok_int_pos_w8, 9, Token::Int(any_int_in(1i128 << 32, (1i128 << 64) - 1)), first = 0x1b);
tok_rt!(c01_q_tok_int_neg_w4, 9, Token::Int(any_int_in(-(1i128 << 32), -65537)), first = 0x3a);
tok_rt!(c01_q_tok_f32, 5, Token::F32(f32::from_bits(kani::any())), first = 0xfa);
tok_rt!(c01_q_tok_f64, 9, Token::F64(f64::from_bits(kani::any())), first = 0xfb);
tok_rt!(c01_q_tok_f16, 3, Token::F16(f32::from_bits(vref::half_to_f32_bits(kani::any()))), first = 0xf9);
tok_rt!(c01_q_tok_array_w8, 9, Token::Array(ge(1 << 32)), first = 0x9b);
tok_rt!(c01_q_tok_array_w1, 9, Token::Array({ let n: u64 = kani::any(); kani::assume(n >= 24 && n < 256); n }), first = 0x98);
tok_rt!(c01_q_tok_map_w2, 9, Token::Map({ let n: u64 = kani::any(); kani::assume(n >= 256 && n < 65536); n }), first = 0xb9);
tok_rt!(c01_q_tok_tag_w4, 9, Token::Tag(Tag::new({ let n: u64 = kani::any(); kani::assume(n >= 65536 && n < (1 << 32)); n })), first = 0xda);
tok_rt!(c01_q_tok_simple_w1, 2, Token::Simple(ge(32)), first = 0xf8);
tok_rt!(c01_q_tok_simple_19, 2, Token::Simple(19), first = 0xf3);
tok_rt!(c01_q_tok_break, 1, Token::Break, first = 0xff);
tok_rt!(c01_q_tok_null, 1, Token::Null, first = 0xf6);
tok_rt!(c01_q_tok_undefined, 1, Token::Undefined, first = 0xf7);
tok_rt!(c01_q_tok_begin_bytes, 1, Token::BeginBytes, first = 0x5f);
tok_rt!(c01_q_tok_begin_string, 1, Token::BeginString, first = 0x7f);
tok_rt!(c01_q_tok_begin_array, 1, Token::BeginArray, first = 0x9f);
tok_rt!(c01_q_tok_begin_map, 1, Token::BeginMap, first = 0xbf);
// Simple values 20..=31: today they round-trip as tokens through the two-byte form `f8 xx`
// (that this form is not well-formed per RFC 8949 is the known finding recorded under C03).
tok_rt!(c01_q_tok_simple_20_31, 2, Token::Simple({ let x: u8 = kani::any(); kani::assume(x >= 20 && x <= 31); x }), first = 0xf8);
