//! C11 — token streams are faithful.  One tokenizer step from an arbitrary position with a
//! *concrete* initial byte (so that `datatype()` and the 26-arm dispatch of `Token::decode`
//! constant-fold) and symbolic argument / payload bytes; plus token -> bytes -> token.
//! The per-initial-byte harnesses are generated (see `c11_gen.rs`, produced by gen_c11.py).
use crate::util::*;
use minicbor::data::{Int, Tag, Token};
use minicbor::decode::Tokenizer;
use minicbor::encode::write::Cursor;
use minicbor::{Decoder, Encoder};
use vref::*;

const L: usize = 14; // initial byte + up to 8 argument bytes + payload (whatever fits) + suffix

fn token_int_value(t: &Token) -> Option<i128> {
    Some(match *t {
        Token::U8(n) => n as i128, Token::U16(n) => n as i128, Token::U32(n) => n as i128, Token::U64(n) => n as i128,
        Token::I8(n) => n as i128, Token::I16(n) => n as i128, Token::I32(n) => n as i128, Token::I64(n) => n as i128,
        Token::Int(n) => i128::from(n),
        _ => return None,
    })
}

/// One step of the tokenizer on `[B, symbolic...]`; `B` is a const so dispatch folds.
pub fn step<const B: u8>() -> bool {
    let rest: [u8; L - 1] = kani::any();
    let mut buf = [0u8; L];
    buf[0] = B;
    let mut i = 1;
    while i < L { buf[i] = rest[i - 1]; i += 1; }
    let major = B >> 5;
    let ai = B & 0x1f;
    let h = match read_head(&buf[..], 0) { HeadR::Ok(h) => Some(h), _ => None };
    let mut d = Decoder::new(&buf[..]);
    let r = { let mut t = d.tokens(); t.next() };
    let pos = d.position();
    // what the data model says
    let ill = ai >= 28 && ai <= 30 || (ai == 31 && (major <= 1 || major == 6));
    if ill {
        assert!(matches!(r, Some(Err(_))), "reserved / invalid initial byte yielded a token");
        assert!(pos == L, "decoder not drained after an error");
        // "then ends": the next call starts at position == len; see `c11_q_end_of_input_*`
        return true;
    }
    let h = h.unwrap();
    let is_str = (major == 2 || major == 3) && ai != 31;
    if is_str && h.arg > (L - h.width) as u64 {
        // the declared payload does not fit into what is left of the input: end-of-input ends the
        // stream (None) and drains the decoder
        assert!(r.is_none(), "string longer than the input did not end the token stream");
        assert!(pos == L);
        return true;
    }
    let item_len = h.width + if is_str { h.arg as usize } else { 0 };
    assert!(matches!(r, Some(Ok(_))) || (major == 3 && ai != 31), "well-formed head yielded no token");
    let tok = match r { Some(Ok(t)) => t, Some(Err(_)) => {
            // only (what the over-approximated UTF-8 validation calls) invalid UTF-8 may fail here;
            // validation itself is C04's subject (c04_str_definite_utf8, unstubbed)
            assert!(major == 3);
            assert!(pos == L);
            return true
        }
        None => { assert!(false); return false } };
    assert!(pos == item_len, "token consumed a different number of bytes than the item has");
    // value check (R4)
    let mut r = RefBuf::new(); // preferred re-encoding of the same item
    match major {
        0 | 1 => {
            let v = int_value(major, h.arg);
            assert!(token_int_value(&tok) == Some(v), "integer token value differs from the head");
            r.int(v);
        }
        2 => if ai == 31 { assert!(tok == Token::BeginBytes); r.byte(0x5f) } else {
            match tok { Token::Bytes(b) => {
                assert!(b.len() as u64 == h.arg && b.as_ptr() == unsafe { buf.as_ptr().add(h.width) });
            } _ => assert!(false, "bytes head: wrong token") }
            r.head(2, h.arg); r.raw(&buf[h.width..h.width + h.arg as usize]);
        }
        3 => if ai == 31 { assert!(tok == Token::BeginString); r.byte(0x7f) } else {
            match tok { Token::String(s) => {
                assert!(s.len() as u64 == h.arg && s.as_ptr() == unsafe { buf.as_ptr().add(h.width) });
            } _ => assert!(false, "text head: wrong token") }
            r.head(3, h.arg); r.raw(&buf[h.width..h.width + h.arg as usize]);
        }
        4 => if ai == 31 { assert!(tok == Token::BeginArray); r.byte(0x9f) } else { assert!(tok == Token::Array(h.arg)); r.head(4, h.arg) },
        5 => if ai == 31 { assert!(tok == Token::BeginMap); r.byte(0xbf) } else { assert!(tok == Token::Map(h.arg)); r.head(5, h.arg) },
        6 => { assert!(tok == Token::Tag(Tag::new(h.arg))); r.head(6, h.arg) }
        _ => match ai {
            0..=19 => { assert!(tok == Token::Simple(ai)); r.byte(0xe0 | ai) }
            20 => { assert!(tok == Token::Bool(false)); r.byte(0xf4) }
            21 => { assert!(tok == Token::Bool(true)); r.byte(0xf5) }
            22 => { assert!(tok == Token::Null); r.byte(0xf6) }
            23 => { assert!(tok == Token::Undefined); r.byte(0xf7) }
            24 => {
                // `f8 n`, n < 32 is not well-formed: anything goes; n >= 32 is simple(n)
                if buf[1] < 32 { return true }
                assert!(tok == Token::Simple(buf[1])); r.byte(0xf8); r.byte(buf[1])
            }
            25 => {
                let hb = ((buf[1] as u16) << 8) | buf[2] as u16;
                let nan = (hb >> 10) & 0x1f == 0x1f && hb & 0x3ff != 0;
                match tok { Token::F16(x) => {
                    if nan { assert!(x.is_nan()) } else { assert!(x.to_bits() == half_to_f32_bits(hb)) }
                } _ => assert!(false, "f9: wrong token") }
                // signalling NaNs are excluded by the statement
                if nan && hb & 0x200 == 0 { return true }
                r.byte(0xf9); r.byte(buf[1]); r.byte(buf[2])
            }
            26 => {
                match tok { Token::F32(x) => assert!(x.to_bits() == h.arg as u32), _ => assert!(false, "fa: wrong token") }
                r.byte(0xfa); r.raw(&buf[1..5])
            }
            27 => {
                match tok { Token::F64(x) => assert!(x.to_bits() == h.arg), _ => assert!(false, "fb: wrong token") }
                r.byte(0xfb); r.raw(&buf[1..9])
            }
            _ => { assert!(tok == Token::Break); r.byte(0xff) }
        }
    }
    // re-encoding the token gives the preferred serialisation of the same item
    let mut e = Encoder::new(Cursor::new([0u8; CAP]));
    assert!(e.encode(&tok).is_ok());
    let c = e.into_writer();
    let n = c.position();
    let out = c.into_inner();
    assert!(n == r.n && eq_cap(&out, &r.b), "re-encoded token is not the preferred form of the consumed item");
    true
}

/// "... and then ends": `Tokenizer::next` maps an end-of-input error to `None` and drains the
/// decoder.  Checked where the end-of-input error arises INSIDE an item (a head whose argument is
/// cut off), for every truncated integer / string / array / map / tag / float head.  At or beyond
/// the end the error arises in `Decoder::datatype` (C02 `c02_setpos_datatype`, C04 `c04_datatype`:
/// `Err(end_of_input)` for every position >= len) and takes the same two-line mapping; that
/// direct query does not finish (after a concrete `Err` CBMC still explores the `Ok` continuation
/// of `datatype()?` through all 26 dispatch arms: niche discriminants are not constant-folded),
/// so this last step is an argument, not a query.
fn truncated<const B: u8>() {
    let buf = [B];
    let mut d = Decoder::new(&buf[..]);
    let r = { let mut t = d.tokens(); t.next() };
    assert!(r.is_none(), "a truncated item at the end of the input did not end the token stream");
    assert!(d.position() == 1, "decoder not drained");
}
macro_rules! trunc_h { ($($name:ident $b:expr),*) => { $(
    #[kani::proof]
    #[kani::unwind(4)]
    #[kani::stub(core::str::from_utf8, crate::util::from_utf8_overapprox)]
    pub fn $name() { truncated::<$b>() } )* } }
trunc_h!(c11_q_end_of_input_18 0x18, c11_q_end_of_input_1b 0x1b, c11_q_end_of_input_39 0x39, c11_q_end_of_input_41 0x41, c11_q_end_of_input_62 0x62,
         c11_q_end_of_input_98 0x98, c11_q_end_of_input_b9 0xb9, c11_q_end_of_input_d8 0xd8, c11_q_end_of_input_f8 0xf8, c11_q_end_of_input_fa 0xfa);
