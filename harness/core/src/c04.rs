//! C04 — typed decoding agrees with the RFC 8949 data model on single items (any head width),
//! wrong-shape accessors return an error, strict prefixes are end-of-input.
//! Input shape H9(+payload): symbolic bytes with symbolic length.
use crate::util::*;
use minicbor::data::{Tag, Type};
use minicbor::Decoder;
use vref::*;

/// Accessors on container / tag heads: value == R1 argument, position == head width,
/// any other major type or shape => Err; truncated head => end-of-input.
macro_rules! head_accessor {
    ($name:ident, $major:expr, indef_ok = $indef:expr, |$d:ident| $call:expr, |$x:ident, $h:ident| $chk:expr) => {
        #[kani::proof]
        pub fn $name() {
            let (buf, len) = any_buf::<9>();
            let mut $d = Decoder::new(&buf[..len]);
            let r = $call;
            match read_head(&buf[..len], 0) {
                HeadR::Ok($h) if $h.major == $major && ($h.ai != 31 || $indef) => {
                    assert!(r.is_ok(), "matching head rejected");
                    let $x = r.unwrap();
                    assert!($chk, "value differs from the head argument");
                    assert!($d.position() == $h.width);
                    kani::cover!($h.width == 9);
                    kani::cover!(!$indef || $h.ai == 31);
                }
                HeadR::Trunc => {
                    assert!(r.is_err());
                    if len == 0 || (buf[0] >> 5) == $major {
                        if let Err(e) = &r { assert!(e.is_end_of_input(), "truncated head: not end-of-input") }
                    }
                }
                _ => assert!(r.is_err(), "non-matching head accepted"),
            }
            kani::cover!(true);
        }
    };
}
head_accessor!(c04_array, 4, indef_ok = true, |d| d.array(), |x, h| if h.ai == 31 { x.is_none() } else { x == Some(h.arg) });
head_accessor!(c04_map, 5, indef_ok = true, |d| d.map(), |x, h| if h.ai == 31 { x.is_none() } else { x == Some(h.arg) });
head_accessor!(c04_tag, 6, indef_ok = false, |d| d.tag(), |x, h| x == Tag::new(h.arg));

/// bool / null / undefined / simple
#[kani::proof]
pub fn c04_simple_family() {
    let (buf, len) = any_buf::<3>();
    let s = &buf[..len];
    let b0 = if len > 0 { Some(buf[0]) } else { None };
    let r = Decoder::new(s).bool();
    match b0 { Some(0xf4) => assert!(matches!(r, Ok(false))), Some(0xf5) => assert!(matches!(r, Ok(true))), _ => assert!(r.is_err()) }
    let mut d = Decoder::new(s);
    let r = d.null();
    if b0 == Some(0xf6) { assert!(r.is_ok() && d.position() == 1) } else { assert!(r.is_err()) }
    let mut d = Decoder::new(s);
    let r = d.undefined();
    if b0 == Some(0xf7) { assert!(r.is_ok() && d.position() == 1) } else { assert!(r.is_err()) }
    let mut d = Decoder::new(s);
    let r = d.simple();
    match b0 {
        Some(b) if b >= 0xe0 && b <= 0xf3 => assert!(matches!(r, Ok(x) if x == b - 0xe0) && d.position() == 1),
        Some(0xf8) if len >= 2 => {
            // the data model assigns simple(n) to `f8 n` for n >= 32 (n < 32 is not well-formed)
            if buf[1] >= 32 { assert!(matches!(r, Ok(x) if x == buf[1]) && d.position() == 2) }
        }
        Some(0xf8) => assert!(matches!(&r, Err(e) if e.is_end_of_input())),
        None => assert!(matches!(&r, Err(e) if e.is_end_of_input())),
        _ => assert!(r.is_err(), "simple() accepted a non-simple item"),
    }
    kani::cover!(b0 == Some(0xf8) && len == 2);
}

/// datatype() agrees with R1 on every initial byte (complete heads).
#[kani::proof]
pub fn c04_datatype() {
    let (buf, len) = any_buf::<9>();
    let d = Decoder::new(&buf[..len]);
    let t = d.datatype();
    if len == 0 { assert!(matches!(&t, Err(e) if e.is_end_of_input())); return }
    let b = buf[0];
    let major = b >> 5;
    let ai = b & 0x1f;
    match &t {
        Ok(t) => {
            let ok = match *t {
                Type::U8 => major == 0 && ai <= 24,
                Type::U16 => major == 0 && ai == 25,
                Type::U32 => major == 0 && ai == 26,
                Type::U64 => major == 0 && ai == 27,
                Type::I8 | Type::I16 | Type::I32 | Type::I64 | Type::Int => major == 1 && ai <= 27,
                Type::Bytes => major == 2 && ai <= 27,
                Type::BytesIndef => b == 0x5f,
                Type::String => major == 3 && ai <= 27,
                Type::StringIndef => b == 0x7f,
                Type::Array => major == 4 && ai <= 27,
                Type::ArrayIndef => b == 0x9f,
                Type::Map => major == 5 && ai <= 27,
                Type::MapIndef => b == 0xbf,
                Type::Tag => major == 6 && ai <= 27,
                Type::Simple => major == 7 && (ai <= 19 || ai == 24),
                Type::Bool => b == 0xf4 || b == 0xf5,
                Type::Null => b == 0xf6,
                Type::Undefined => b == 0xf7,
                Type::F16 => b == 0xf9,
                Type::F32 => b == 0xfa,
                Type::F64 => b == 0xfb,
                Type::Break => b == 0xff,
                Type::Unknown(x) => x == b && (ai >= 28 && ai <= 30 || (ai == 31 && (major <= 1 || major == 6))),
            };
            assert!(ok, "datatype() disagrees with the initial byte");
        }
        Err(e) => {
            // only the negative-integer width peek may run out of input
            assert!(e.is_end_of_input() && major == 1 && ai >= 24 && ai <= 27 && len < 2);
        }
    }
    kani::cover!(matches!(t, Ok(Type::Break)));
}

/// Definite byte strings: payload <= 4, any head width; the result is the payload slice,
/// borrowed from the input; strict prefixes are end-of-input; other majors are errors.
#[kani::proof]
#[kani::unwind(6)]
pub fn c04_bytes_definite() {
    let (buf, len) = any_buf::<13>();
    let s = &buf[..len];
    let mut d = Decoder::new(s);
    let r = d.bytes();
    match read_head(s, 0) {
        HeadR::Ok(h) if h.major == 2 && h.ai != 31 => {
            let avail = (len - h.width) as u64;
            if h.arg <= avail {
                kani::assume(h.arg <= 4);
                assert!(r.is_ok(), "complete byte string rejected");
                let x = r.unwrap();
                let n = h.arg as usize;
                assert!(x.len() == n);
                assert!(x.as_ptr() == unsafe { s.as_ptr().add(h.width) }, "result does not point into the input");
                assert!(d.position() == h.width + n);
                kani::cover!(n == 4 && h.width == 9);
            } else {
                assert!(matches!(&r, Err(e) if e.is_end_of_input()), "truncated payload: not end-of-input");
            }
        }
        HeadR::Trunc => {
            assert!(r.is_err());
            if len == 0 || buf[0] >> 5 == 2 { assert!(matches!(&r, Err(e) if e.is_end_of_input())) }
        }
        _ => assert!(r.is_err(), "bytes() accepted a non-bytes item"),
    }
}

/// Definite text strings with the real UTF-8 validation against R8 (payload <= 4, one-byte head).
#[kani::proof]
#[kani::unwind(6)]
pub fn c04_str_definite_utf8() {
    let p: [u8; 4] = kani::any();
    let n: usize = kani::any();
    kani::assume(n <= 4);
    let buf = [0x60 | n as u8, p[0], p[1], p[2], p[3]];
    let mut d = Decoder::new(&buf[..]);
    let r = d.str();
    if utf8_valid4(&p, n) {
        assert!(r.is_ok(), "valid UTF-8 rejected");
        let x = r.unwrap();
        assert!(x.len() == n && x.as_ptr() == unsafe { buf.as_ptr().add(1) }, "not borrowed from the input");
        assert!(d.position() == 1 + n);
    } else {
        assert!(r.is_err(), "invalid UTF-8 accepted as text");
        if let Err(e) = r { assert!(!e.is_end_of_input() && !e.is_type_mismatch()) }
    }
    kani::cover!(n == 4 && utf8_valid4(&p, 4) && p[0] >= 0xf0);
    kani::cover!(n == 3 && !utf8_valid4(&p, 3));
}

/// Text head at any width with payload truncation: end-of-input; other majors: error.
#[kani::proof]
#[kani::unwind(6)]
#[kani::stub(core::str::from_utf8, crate::util::from_utf8_overapprox)]
pub fn c04_str_heads_and_truncation() {
    let (buf, len) = any_buf::<11>();
    let s = &buf[..len];
    let mut d = Decoder::new(s);
    let r = d.str();
    match read_head(s, 0) {
        HeadR::Ok(h) if h.major == 3 && h.ai != 31 => {
            let avail = (len - h.width) as u64;
            if h.arg <= avail {
                if let Ok(x) = r {
                    assert!(x.len() as u64 == h.arg && d.position() == h.width + h.arg as usize);
                    assert!(x.as_ptr() == unsafe { s.as_ptr().add(h.width) });
                }
            } else {
                assert!(matches!(&r, Err(e) if e.is_end_of_input()));
            }
        }
        HeadR::Trunc => assert!(r.is_err()),
        _ => assert!(r.is_err(), "str() accepted a non-text item"),
    }
    kani::cover!(true);
}

/// Indefinite-length byte strings through `bytes_iter`: the chunks concatenate to the whole,
/// each chunk is borrowed from the input, the break is consumed; a chunk of the other major
/// type or an indefinite chunk is an error.  Type-directed: `5f 4<n1> .. 4<n2> .. ff`, chunk
/// lengths concrete per harness, contents symbolic.
fn chunks<const MAJOR: u8, const N1: usize, const N2: usize>() {
    let a: [u8; 4] = kani::any();
    let mut buf = [0u8; 8];
    let m = MAJOR << 5;
    buf[0] = m | 31;
    buf[1] = m | N1 as u8;
    let mut i = 0;
    while i < 2 { if i < N1 { buf[2 + i] = if MAJOR == 3 { a[i] & 0x7f } else { a[i] }; } i += 1; }
    buf[2 + N1] = m | N2 as u8;
    let mut j = 0;
    while j < 2 { if j < N2 { buf[3 + N1 + j] = if MAJOR == 3 { a[2 + j] & 0x7f } else { a[2 + j] }; } j += 1; }
    buf[3 + N1 + N2] = 0xff;
    let total = 4 + N1 + N2;
    let mut d = Decoder::new(&buf[..total]);
    let mut got = [0u8; 4];
    let mut n = 0usize;
    let mut chunks = 0;
    if MAJOR == 2 {
        let it = d.bytes_iter();
        assert!(it.is_ok());
        for c in it.unwrap() {
            assert!(c.is_ok(), "well-formed chunk rejected");
            let c = c.unwrap();
            assert!(c.as_ptr() as usize >= buf.as_ptr() as usize && (c.as_ptr() as usize) < buf.as_ptr() as usize + 8, "chunk not borrowed from the input");
            let mut k = 0;
            while k < 2 { if k < c.len() { got[n + k] = c[k]; } k += 1; }
            n += c.len();
            chunks += 1;
        }
    } else {
        let it = d.str_iter();
        assert!(it.is_ok());
        for c in it.unwrap() {
            assert!(c.is_ok(), "well-formed chunk rejected");
            let c = c.unwrap().as_bytes();
            let mut k = 0;
            while k < 2 { if k < c.len() { got[n + k] = c[k]; } k += 1; }
            n += c.len();
            chunks += 1;
        }
    }
    assert!(chunks == 2 && n == N1 + N2, "chunks do not concatenate to the whole");
    let mut k = 0;
    while k < 2 { if k < N1 { assert!(got[k] == buf[2 + k]); } k += 1; }
    let mut k = 0;
    while k < 2 { if k < N2 { assert!(got[N1 + k] == buf[3 + N1 + k]); } k += 1; }
    assert!(d.position() == total, "break not consumed / position not at the end of the item");
}
macro_rules! chunk_h { ($($name:ident $m:expr, $a:expr, $b:expr);*) => { $(
    #[kani::proof]
    #[kani::unwind(6)]
    pub fn $name() { chunks::<$m, $a, $b>() } )* } }
chunk_h!(c04_bytes_chunks_2_1 2, 2, 1; c04_bytes_chunks_0_2 2, 0, 2; c04_str_chunks_1_2 3, 1, 2; c04_str_chunks_2_0 3, 2, 0);

/// A chunk of the other major type, or an indefinite chunk, inside an indefinite string is an error.
#[kani::proof]
#[kani::unwind(6)]
pub fn c04_bad_chunks_rejected() {
    let bad: u8 = kani::any();
    kani::assume(bad == 0x61 || bad == 0x5f || bad == 0x01 || bad == 0x81);
    let buf = [0x5f, 0x41, 0x00, bad, 0x00, 0xff, 0xff];
    let mut d = Decoder::new(&buf[..]);
    let mut err = false;
    let mut steps = 0;
    for c in d.bytes_iter().unwrap() { steps += 1; if c.is_err() { err = true; break } if steps > 3 { break } }
    assert!(err, "ill-typed chunk inside an indefinite byte string accepted");
}

/// `array_iter::<u16>` / `map_iter::<u8, bool>`: elements in order, definite count-down and
/// indefinite break handling, exact end position (type-directed skeletons).
#[kani::proof]
#[kani::unwind(6)]
pub fn c04_array_iter_values() {
    let a: [u8; 4] = kani::any();
    let indef: bool = kani::any();
    let def = [0x82, 0x19, a[0], a[1], 0x19, a[2], a[3], 0x00];
    let ind = [0x9f, 0x19, a[0], a[1], 0x19, a[2], a[3], 0xff];
    let buf = if indef { ind } else { def };
    let len = if indef { 8 } else { 7 };
    let mut d = Decoder::new(&buf[..]);
    let mut out = [0u16; 2];
    let mut n = 0;
    for x in d.array_iter::<u16>().unwrap() { assert!(x.is_ok()); if n < 2 { out[n] = x.unwrap(); } n += 1; if n > 2 { break } }
    assert!(n == 2 && out[0] == u16::from_be_bytes([a[0], a[1]]) && out[1] == u16::from_be_bytes([a[2], a[3]]));
    assert!(d.position() == len);
}

/// Types decoded through the shared field loop (`Range*`, `Duration`, ...) from an
/// INDEFINITE-length array (`9f .. ff`, never produced by minicbor's own encoder) and from
/// non-preferred heads: value and end position (the break belongs to the item).
#[kani::proof]
#[kani::unwind(6)]
#[kani::stub(minicbor::decode::Decoder::skip, crate::util::skip_r3_small)]
pub fn c04_td_range_indefinite() {
    let a: [u8; 2] = kani::any();
    let buf = [0x9f, 0x18, a[0], 0x18, a[1], 0xff, 0x05];
    let mut d = Decoder::new(&buf[..]);
    let r = d.decode::<core::ops::Range<u8>>();
    assert!(r.is_ok(), "indefinite-length encoding of a Range rejected");
    let v = r.unwrap();
    assert!(v.start == a[0] && v.end == a[1]);
    assert!(d.position() == 6, "position is not at the end of the item (break not consumed?)");
    // what follows can be read as the next item
    assert!(matches!(d.u8(), Ok(5)));
}

#[kani::proof]
#[kani::unwind(6)]
#[kani::stub(minicbor::decode::Decoder::skip, crate::util::skip_r3_small)]
pub fn c04_td_duration_indefinite_and_wide() {
    let a: [u8; 3] = kani::any();
    let buf = [0x9f, 0x19, a[0], a[1], 0x18, a[2], 0xff, 0x05];
    let mut d = Decoder::new(&buf[..]);
    let r = d.decode::<core::time::Duration>();
    assert!(r.is_ok());
    let v = r.unwrap();
    assert!(v.as_secs() == u16::from_be_bytes([a[0], a[1]]) as u64 && v.subsec_nanos() == a[2] as u32);
    assert!(d.position() == 7, "position is not at the end of the item (break not consumed?)");
    // definite array with a wide (non-preferred) head
    let buf2 = [0x98, 0x02, 0x19, a[0], a[1], 0x18, a[2], 0x05];
    let mut d = Decoder::new(&buf2[..]);
    let r = d.decode::<core::time::Duration>();
    assert!(r.is_ok());
    assert!(d.position() == 7);
}

#[kani::proof]
#[kani::unwind(6)]
#[kani::stub(minicbor::decode::Decoder::skip, crate::util::skip_r3_small)]
pub fn c04_td_range_from_indefinite() {
    let a: [u8; 2] = kani::any();
    let buf = [0x9f, 0x19, a[0], a[1], 0xff, 0x05];
    let mut d = Decoder::new(&buf[..]);
    let r = d.decode::<core::ops::RangeFrom<u16>>();
    assert!(matches!(r, Ok(ref v) if v.start == u16::from_be_bytes(a)));
    assert!(d.position() == 5, "position is not at the end of the item (break not consumed?)");
}

/// Float accessors on any head: Ok only on a float item of acceptable width (f16/f32/f64 per
/// C12's widening rule); every other item is an error, truncation is end-of-input.
#[cfg(feature = "half")]
#[kani::proof]
pub fn c04_float_accessors_shape() {
    let (buf, len) = any_buf::<9>();
    let s = &buf[..len];
    let b0 = if len > 0 { Some(buf[0]) } else { None };
    let mut d = Decoder::new(s);
    let r = d.f64();
    match b0 {
        Some(0xf9) if len >= 3 => assert!(r.is_ok() && d.position() == 3),
        Some(0xfa) if len >= 5 => assert!(r.is_ok() && d.position() == 5),
        Some(0xfb) if len >= 9 => assert!(matches!(r, Ok(x) if x.to_bits() == u64::from_be_bytes([buf[1], buf[2], buf[3], buf[4], buf[5], buf[6], buf[7], buf[8]])) && d.position() == 9),
        Some(0xf9) | Some(0xfa) | Some(0xfb) | None => assert!(matches!(&r, Err(e) if e.is_end_of_input()), "truncated float: not end-of-input"),
        Some(_) => assert!(r.is_err(), "f64() accepted a non-float item"),
    }
    let mut d = Decoder::new(s);
    let r = d.f32();
    match b0 {
        Some(0xf9) if len >= 3 => assert!(r.is_ok() && d.position() == 3),
        Some(0xfa) if len >= 5 => assert!(matches!(r, Ok(x) if x.to_bits() == u32::from_be_bytes([buf[1], buf[2], buf[3], buf[4]])) && d.position() == 5),
        Some(0xf9) | Some(0xfa) | None => assert!(matches!(&r, Err(e) if e.is_end_of_input())),
        Some(_) => assert!(r.is_err(), "f32() accepted a non-f16/f32 item"),
    }
    let mut d = Decoder::new(s);
    let r = d.f16();
    match b0 {
        Some(0xf9) if len >= 3 => assert!(r.is_ok() && d.position() == 3),
        Some(0xf9) | None => assert!(matches!(&r, Err(e) if e.is_end_of_input())),
        Some(_) => assert!(r.is_err(), "f16() accepted a non-f16 item"),
    }
    kani::cover!(b0 == Some(0xfb) && len == 9);
}

/// An indefinite-length array cut at an element boundary (break missing) is a strict prefix:
/// `[u8; 2]` and `array_iter_with` report end-of-input, never success.
#[kani::proof]
#[kani::unwind(6)]
#[kani::stub(minicbor::decode::Decoder::skip, crate::util::skip_r3_small)]
pub fn c04_td_indefinite_array_truncated_at_boundary() {
    let a: [u8; 2] = kani::any();
    let buf = [0x9f, 0x18, a[0], 0x18, a[1]];
    let mut d = Decoder::new(&buf[..]);
    let r = d.decode::<[u8; 2]>();
    assert!(r.is_err(), "indefinite array without its break decoded successfully");
    if let Err(e) = r { assert!(e.is_end_of_input(), "missing break: not an end-of-input error") }
    let lone = [0x9fu8];
    let mut d = Decoder::new(&lone[..]);
    let r = d.decode::<[u8; 0]>();
    assert!(matches!(&r, Err(e) if e.is_end_of_input()), "a lone 9f decoded as an empty array");
    let mut ctx = ();
    let mut d = Decoder::new(&buf[..]);
    let mut n = 0;
    let mut last_err = false;
    for x in d.array_iter_with::<(), u8>(&mut ctx).unwrap() { n += 1; last_err = x.is_err(); if last_err || n > 3 { break } }
    assert!(n == 3 && last_err, "array_iter_with ended silently at the end of the input");
}

/// `map_iter_with` (the iterator behind the map collections) on an indefinite map: entries in
/// order and the break CONSUMED, so that an enclosing container continues behind it.
#[kani::proof]
#[kani::unwind(6)]
pub fn c04_map_iter_with_indefinite_consumes_break() {
    let a: [u8; 2] = kani::any();
    let buf = [0xbf, 0x18, a[0], 0x18, a[1], 0xff, 0x05];
    let mut ctx = ();
    let mut d = Decoder::new(&buf[..]);
    let mut n = 0;
    for x in d.map_iter_with::<(), u8, u8>(&mut ctx).unwrap() { assert!(matches!(x, Ok((k, v)) if k == a[0] && v == a[1])); n += 1; if n > 2 { break } }
    assert!(n == 1);
    assert!(d.position() == 6, "break of the indefinite map not consumed");
    let mut d2 = Decoder::new(&buf[..]);
    let mut m = 0;
    for x in d2.map_iter::<u8, u8>().unwrap() { assert!(x.is_ok()); m += 1; if m > 2 { break } }
    assert!(m == 1 && d2.position() == 6);
}
