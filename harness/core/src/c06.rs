//! C06 — skip() consumes exactly one data item, whatever its nesting.
//!
//! Group 1 (structure): all byte strings of length N over an alphabet of ONE-BYTE items
//! `00 20 80 81 82 83 9f a0 a1 bf c1 f6 ff` are symbolic at once; the leaf accessors skip()
//! calls are replaced by one-byte models (so the cursor stays concrete) that are separately
//! proven equivalent to the real accessors on exactly that domain (`c06_lm_*`) and assert
//! their domain.  What runs unstubbed is skip()'s own loop: counters, stack, mode switches.
//! Oracle: the independent item-boundary parser R3 (vref::wellformed).
//! Group 2 (heads and strings): the real accessors with a concrete initial byte.
use crate::util::*;
use minicbor::data::{Int, Tag};
use minicbor::decode::Error;
use minicbor::Decoder;
use vref::*;

pub fn in_alphabet(b: u8) -> bool {
    matches!(b, 0x00 | 0x20 | 0x80 | 0x81 | 0x82 | 0x83 | 0x9f | 0xa0 | 0xa1 | 0xbf | 0xc1 | 0xf6 | 0xff)
}

fn dom_fail() -> ! {
    assert!(false, "model domain: leaf model called outside its one-byte-head domain");
    kani::assume(false);
    loop {}
}

fn next_byte<'b: 'b>(d: &mut Decoder<'b>) -> Result<u8, Error> {
    let p = d.position();
    let inp = d.input();
    if p < inp.len() { d.set_position(p + 1); Ok(inp[p]) } else { Err(Error::end_of_input()) }
}

/// one-byte model of `Decoder::u64`: an in-head unsigned integer
pub fn m_u64<'b: 'b>(d: &mut Decoder<'b>) -> Result<u64, Error> {
    let b = next_byte(d)?;
    if b <= 0x17 { Ok(b as u64) } else { dom_fail() }
}
/// one-byte model of `Decoder::int`
pub fn m_int<'b: 'b>(d: &mut Decoder<'b>) -> Result<Int, Error> {
    let b = next_byte(d)?;
    if b <= 0x17 { Ok(Int::from(b)) } else if b >= 0x20 && b <= 0x37 { Ok(Int::from(-1 - (b - 0x20) as i8)) } else { dom_fail() }
}
pub fn m_array<'b: 'b>(d: &mut Decoder<'b>) -> Result<Option<u64>, Error> {
    let b = next_byte(d)?;
    if b >= 0x80 && b <= 0x97 { Ok(Some((b - 0x80) as u64)) } else if b == 0x9f { Ok(None) } else { dom_fail() }
}
pub fn m_map<'b: 'b>(d: &mut Decoder<'b>) -> Result<Option<u64>, Error> {
    let b = next_byte(d)?;
    if b >= 0xa0 && b <= 0xb7 { Ok(Some((b - 0xa0) as u64)) } else if b == 0xbf { Ok(None) } else { dom_fail() }
}
/// model of the private `Decoder::unsigned(info, pos)` for in-head info values
pub fn m_unsigned<'b: 'b>(_d: &mut Decoder<'b>, b: u8, _p: usize) -> Result<u64, Error> {
    if b <= 0x17 { Ok(b as u64) } else { dom_fail() }
}
pub fn m_bytes_iter<'a, 'b: 'b>(_d: &'a mut Decoder<'b>) -> Result<minicbor::decode::BytesIter<'a, 'b>, Error> { dom_fail() }
pub fn m_str_iter<'a, 'b: 'b>(_d: &'a mut Decoder<'b>) -> Result<minicbor::decode::StrIter<'a, 'b>, Error> { dom_fail() }

// ---- leaf-model equivalence: real accessor == model on the model's domain -------------------
macro_rules! lm_equiv {
    ($name:ident, |$b:ident| $dom:expr, |$d:ident| $real:expr, $model:ident) => {
        #[kani::proof]
        pub fn $name() {
            let buf: [u8; 2] = kani::any();
            let len: usize = kani::any();
            kani::assume(len <= 2);
            let $b = buf[0];
            kani::assume(len == 0 || $dom);
            let mut $d = Decoder::new(&buf[..len]);
            let r1 = $real;
            let p1 = $d.position();
            let mut d2 = Decoder::new(&buf[..len]);
            let r2 = $model(&mut d2);
            let p2 = d2.position();
            match (r1, r2) {
                (Ok(x), Ok(y)) => assert!(x == y && p1 == p2, "model differs from the real accessor"),
                (Err(e), Err(f)) => assert!(e.is_end_of_input() == f.is_end_of_input() && p1 == p2),
                _ => assert!(false, "model and real accessor disagree on Ok/Err"),
            }
            kani::cover!(len == 2);
        }
    };
}
lm_equiv!(c06_lm_u64, |b| b <= 0x17, |d| d.u64(), m_u64);
lm_equiv!(c06_lm_int, |b| b <= 0x17 || (b >= 0x20 && b <= 0x37), |d| d.int(), m_int);
lm_equiv!(c06_lm_array, |b| (b >= 0x80 && b <= 0x97) || b == 0x9f, |d| d.array(), m_array);
lm_equiv!(c06_lm_map, |b| (b >= 0xa0 && b <= 0xb7) || b == 0xbf, |d| d.map(), m_map);

/// `read().and_then(|n| unsigned(info_of(n), p))` as used by skip() for tags / simple values:
/// on a one-byte head it consumes exactly that byte (shown through the public `tag()`).
#[kani::proof]
pub fn c06_lm_unsigned_via_tag() {
    let buf: [u8; 2] = kani::any();
    kani::assume(buf[0] >= 0xc0 && buf[0] <= 0xd7);
    let mut d = Decoder::new(&buf[..]);
    let r = d.tag();
    assert!(matches!(r, Ok(t) if t == Tag::new((buf[0] & 0x1f) as u64)) && d.position() == 1);
}

// ---- group 1: structure ----------------------------------------------------------------------
fn a1<const N: usize, const D: usize>() {
    let buf: [u8; N] = kani::any();
    let mut i = 0;
    while i < N { kani::assume(in_alphabet(buf[i])); i += 1; }
    let want = wellformed::<D>(&buf[..], 0, N + 1);   // nesting depth <= N < D
    let mut d = Decoder::new(&buf[..]);
    let r = d.skip();
    let pos = d.position();
    assert!(pos <= N, "position beyond the input");
    match want {
        Wf::Ok { end, indef_in_def } => {
            #[cfg(feature = "alloc")]
            {
                let _ = indef_in_def;
                assert!(r.is_ok(), "skip() failed on a well-formed item");
                assert!(pos == end, "skip() stopped at a different position than the item's end");
            }
            #[cfg(not(feature = "alloc"))]
            match &r {
                Ok(()) => assert!(pos == end, "skip() stopped at a different position than the item's end"),
                Err(e) => assert!(e.is_message() && indef_in_def,
                    "no-alloc skip() failed for another reason than an indefinite container inside a definite one"),
            }
            kani::cover!(end == N, "a well-formed item of maximal length exists");
            kani::cover!(N < 3 || indef_in_def);
        }
        Wf::Trunc => assert!(r.is_err(), "skip() stopped early on a strict prefix of a well-formed item"),
        Wf::Bad => {}
        Wf::Bound => assert!(false, "oracle bound exceeded"),
    }
}

/// Fixed-capacity models of the growth paths of skip()'s explicit stack (`Vec<Option<u64>>`, alloc
/// build): std code, not minicbor's; the capacity assertion reports a stack deeper than 8.
#[cfg(feature = "alloc")]
pub fn m_vec_new<T>() -> alloc::vec::Vec<T> { alloc::vec::Vec::with_capacity(8) }
#[cfg(feature = "alloc")]
pub fn m_vec_push<T, A: core::alloc::Allocator>(v: &mut alloc::vec::Vec<T, A>, x: T) {
    let n = v.len();
    assert!(n < v.capacity(), "growth model: skip() stack deeper than the pre-sized capacity");
    unsafe { v.as_mut_ptr().add(n).write(x); v.set_len(n + 1); }
}

/// In alloc builds `decode::Error` carries a `String`; attaching a message allocates and formats.
/// Messages are not observed by any C06 assertion (classes and positions are): the model drops them.
#[cfg(feature = "alloc")]
pub fn m_with_message<T: core::fmt::Display>(e: Error, _msg: T) -> Error { e }

macro_rules! a1_harness {
    ($name:ident, $n:expr, $uw:expr) => {
        #[kani::proof]
        #[kani::unwind($uw)]
        #[cfg_attr(feature = "alloc", kani::stub(minicbor::decode::Error::with_message, m_with_message))]
        #[cfg_attr(feature = "alloc", kani::stub(alloc::vec::Vec::new, m_vec_new))]
        #[cfg_attr(feature = "alloc", kani::stub(alloc::vec::Vec::push, m_vec_push))]
        #[kani::stub(minicbor::decode::Decoder::u64, m_u64)]
        #[kani::stub(minicbor::decode::Decoder::int, m_int)]
        #[kani::stub(minicbor::decode::Decoder::array, m_array)]
        #[kani::stub(minicbor::decode::Decoder::map, m_map)]
        #[kani::stub(minicbor::decode::Decoder::unsigned, m_unsigned)]
        #[kani::stub(minicbor::decode::Decoder::bytes_iter, m_bytes_iter)]
        #[kani::stub(minicbor::decode::Decoder::str_iter, m_str_iter)]
        pub fn $name() { a1::<$n, { $n + 1 }>() }
    };
}
a1_harness!(c06_a1_n1, 1, 5);
a1_harness!(c06_a1_n2, 2, 6);
a1_harness!(c06_a1_n3, 3, 7);
a1_harness!(c06_a1_n4, 4, 8);
a1_harness!(c06_a1_n5, 5, 9);
a1_harness!(c06_t_a1_n6, 6, 10);
a1_harness!(c06_t_a1_n7, 7, 11);

// ---- group 2: heads and strings with the real accessors, concrete initial byte ---------------
/// One item starting with the concrete initial byte B (+ symbolic argument / payload / suffix):
/// skip() ends exactly where R3 says the item ends; truncations are errors.
pub fn head_item<const B: u8>() {
    let rest: [u8; 13] = kani::any();
    let mut buf = [0u8; 14];
    buf[0] = B;
    let mut i = 1;
    while i < 14 { buf[i] = rest[i - 1]; i += 1; }
    let major = B >> 5;
    // strings: keep the declared length inside the buffer's payload window (<= 4)
    if (major == 2 || major == 3) && (B & 0x1f) != 31 {
        if let HeadR::Ok(h) = read_head(&buf[..], 0) { kani::assume(h.arg <= 4); }
    }
    // a tag is followed by the tagged item: keep that one a concrete one-byte scalar (a symbolic
    // initial byte there makes skip()'s whole dispatch symbolic in the next loop iteration)
    if major == 6 {
        let w = match B & 0x1f { 0..=23 => 1, 24 => 2, 25 => 3, 26 => 5, _ => 9 };
        buf[w] = 0x05;
    }
    let want = wellformed::<4>(&buf[..], 0, 4);
    let mut d = Decoder::new(&buf[..]);
    let r = d.skip();
    match want {
        Wf::Ok { end, .. } => {
            assert!(r.is_ok(), "skip() failed on a well-formed item");
            assert!(d.position() == end, "skip() stopped at a different position than the item's end");
            kani::cover!(true);
        }
        Wf::Trunc => assert!(r.is_err()),
        _ => {}
    }
}

/// A definite array / map head of any width B (1-, 2-, 4-, 8-byte length, all lengths symbolic)
/// followed by 3 one-byte items and the end of the input: skip() succeeds exactly when the
/// declared number of items (2n for maps, without wrapping) is present, ending behind the last
/// one; otherwise (strict prefix of a longer item) it is an error.
pub fn wide_container<const B: u8>() {
    let a: [u8; 8] = kani::any();
    let w = match B & 0x1f { 24 => 2, 25 => 3, 26 => 5, _ => 9 };
    let mut buf = [0u8; 12];
    buf[0] = B;
    if w > 1 { buf[1] = a[0] } if w > 2 { buf[2] = a[1] } if w > 3 { buf[3] = a[2] } if w > 4 { buf[4] = a[3] }
    if w > 5 { buf[5] = a[4] } if w > 6 { buf[6] = a[5] } if w > 7 { buf[7] = a[6] } if w > 8 { buf[8] = a[7] }
    let total = w + 3;
    let h = match read_head(&buf[..total], 0) { HeadR::Ok(h) => h, _ => { assert!(false); return } };
    let items: u128 = if B >> 5 == 5 { (h.arg as u128) * 2 } else { h.arg as u128 };
    let mut d = Decoder::new(&buf[..total]);
    let r = d.skip();
    if items <= 3 {
        assert!(r.is_ok(), "skip() failed on a complete container");
        assert!(d.position() == w + items as usize, "skip() stopped at a different position than the container's end");
    } else {
        assert!(r.is_err(), "skip() stopped early although the container declares more items than the input holds");
    }
    kani::cover!(items == 3 || items == 2);
    kani::cover!(items > 3);
}

// ---- group 1b: 8-byte container lengths (counter arithmetic of skip() at full width) ----------
/// model of `Decoder::array` / `Decoder::map` on the domain {one-byte heads, 8-byte-length heads}
fn wide_head<'b: 'b>(d: &mut Decoder<'b>, major: u8) -> Result<Option<u64>, Error> {
    let b = next_byte(d)?;
    if b & 0xe0 != major { dom_fail() }
    match b & 0x1f {
        n @ 0..=23 => Ok(Some(n as u64)),
        27 => {
            let p = d.position();
            let inp = d.input();
            if inp.len() - p < 8 { return Err(Error::end_of_input()) }
            let n = u64::from_be_bytes([inp[p], inp[p + 1], inp[p + 2], inp[p + 3], inp[p + 4], inp[p + 5], inp[p + 6], inp[p + 7]]);
            d.set_position(p + 8);
            Ok(Some(n))
        }
        31 => Ok(None),
        _ => dom_fail(),
    }
}
pub fn m_array_w<'b: 'b>(d: &mut Decoder<'b>) -> Result<Option<u64>, Error> { wide_head(d, 0x80) }
pub fn m_map_w<'b: 'b>(d: &mut Decoder<'b>) -> Result<Option<u64>, Error> { wide_head(d, 0xa0) }

macro_rules! lm_equiv_wide {
    ($name:ident, $b0:expr, $len:expr, |$d:ident| $real:expr, $model:ident) => {
        #[kani::proof]
        pub fn $name() {
            let a: [u8; 8] = kani::any();
            let buf = [$b0, a[0], a[1], a[2], a[3], a[4], a[5], a[6], a[7]];
            let mut $d = Decoder::new(&buf[..$len]);
            let r1 = $real;
            let p1 = $d.position();
            let mut d2 = Decoder::new(&buf[..$len]);
            let r2 = $model(&mut d2);
            let p2 = d2.position();
            match (r1, r2) {
                (Ok(x), Ok(y)) => assert!(x == y && p1 == p2 && $len == 9, "model differs from the real accessor"),
                (Err(e), Err(f)) => assert!(e.is_end_of_input() && f.is_end_of_input() && $len < 9),
                _ => assert!(false, "model and real accessor disagree on Ok/Err"),
            }
        }
    };
}
lm_equiv_wide!(c06_lm_array_wide, 0x9b, 9, |d| d.array(), m_array_w);
lm_equiv_wide!(c06_lm_map_wide, 0xbb, 9, |d| d.map(), m_map_w);
lm_equiv_wide!(c06_lm_array_wide_cut, 0x9b, 6, |d| d.array(), m_array_w);
lm_equiv_wide!(c06_lm_map_wide_cut, 0xbb, 6, |d| d.map(), m_map_w);

/// A definite array / map head with an 8-byte length (symbolic, ANY value) followed by ITEMS
/// one-byte scalar items and the end of the input: skip() succeeds exactly when the declared number
/// of items (2n for maps, WITHOUT wrapping) is present, ending behind the last one; otherwise the
/// item is truncated and skip() must fail.
pub fn wide_len<const B: u8, const ITEMS: usize>() {
    let a: [u8; 8] = kani::any();
    let t: [u8; 3] = kani::any();
    let mut buf = [0u8; 12];
    buf[0] = B;
    buf[1] = a[0]; buf[2] = a[1]; buf[3] = a[2]; buf[4] = a[3]; buf[5] = a[4]; buf[6] = a[5]; buf[7] = a[6]; buf[8] = a[7];
    let mut i = 0;
    while i < 3 { kani::assume(t[i] == 0x00 || t[i] == 0x20 || t[i] == 0xf6); buf[9 + i] = t[i]; i += 1; }
    let n = u64::from_be_bytes(a);
    let items: u128 = if B >> 5 == 5 { (n as u128) * 2 } else { n as u128 };
    let mut d = Decoder::new(&buf[..9 + ITEMS]);
    let r = d.skip();
    if items <= ITEMS as u128 {
        assert!(r.is_ok(), "skip() failed on a complete container");
        assert!(d.position() == 9 + items as usize, "skip() stopped at a different position than the container's end");
    } else {
        assert!(r.is_err(), "skip() stopped early although the container declares more items than the input holds");
    }
    kani::cover!(items > ITEMS as u128 && n >= 1 << 63, "a length whose doubling wraps");
    kani::cover!(items == ITEMS as u128, "the container is exactly complete");
}
macro_rules! wide_harness {
    ($name:ident, $b:expr, $items:expr, $uw:expr) => {
        #[kani::proof]
        #[kani::unwind($uw)]
        #[cfg_attr(feature = "alloc", kani::stub(minicbor::decode::Error::with_message, m_with_message))]
        #[cfg_attr(feature = "alloc", kani::stub(alloc::vec::Vec::new, m_vec_new))]
        #[cfg_attr(feature = "alloc", kani::stub(alloc::vec::Vec::push, m_vec_push))]
        #[kani::stub(minicbor::decode::Decoder::u64, m_u64)]
        #[kani::stub(minicbor::decode::Decoder::int, m_int)]
        #[kani::stub(minicbor::decode::Decoder::array, m_array_w)]
        #[kani::stub(minicbor::decode::Decoder::map, m_map_w)]
        #[kani::stub(minicbor::decode::Decoder::unsigned, m_unsigned)]
        #[kani::stub(minicbor::decode::Decoder::bytes_iter, m_bytes_iter)]
        #[kani::stub(minicbor::decode::Decoder::str_iter, m_str_iter)]
        pub fn $name() { wide_len::<$b, $items>() }
    };
}
wide_harness!(c06_wide_len_map_0, 0xbb, 0, 5);
wide_harness!(c06_wide_len_map_2, 0xbb, 2, 7);
wide_harness!(c06_wide_len_array_0, 0x9b, 0, 5);
wide_harness!(c06_wide_len_array_2, 0x9b, 2, 7);

// ---- group 1c: explicit-stack mode of the alloc build behind a concrete prefix -----------------
/// `83 9f ff` puts the alloc build's skip() into explicit-stack mode with a DEFINITE frame on top (two
/// items pending); `82 9f` leaves an INDEFINITE frame on top.  Behind that concrete prefix follow
/// one symbolic alphabet byte X (every container kind as a later sibling / first child) and three
/// bytes over {00, ff}.  Oracle: R3 on the whole buffer.
#[cfg(feature = "alloc")]
pub fn stack_mode<const P: usize>() {
    let x: u8 = kani::any();
    kani::assume(in_alphabet(x));
    let t: [u8; 3] = kani::any();
    let mut buf = [0u8; 7];
    let pl = if P == 0 { buf[0] = 0x83; buf[1] = 0x9f; buf[2] = 0xff; 3 } else if P == 2 { buf[0] = 0x82; buf[1] = 0x9f; buf[2] = 0xff; 3 } else { buf[0] = 0x82; buf[1] = 0x9f; 2 };
    buf[pl] = x;
    let mut i = 0;
    while i < 3 { kani::assume(t[i] == 0x00 || t[i] == 0xff); buf[pl + 1 + i] = t[i]; i += 1; }
    let total = if P == 2 { pl + 3 } else { pl + 4 };
    let want = wellformed::<8>(&buf[..total], 0, 8);
    let mut d = Decoder::new(&buf[..total]);
    let r = d.skip();
    let pos = d.position();
    match want {
        Wf::Ok { end, .. } => {
            assert!(r.is_ok(), "skip() failed on a well-formed item");
            assert!(pos == end, "skip() stopped at a different position than the item's end");
            kani::cover!(end == total, "a well-formed item of maximal length exists");
        }
        Wf::Trunc => assert!(r.is_err(), "skip() stopped early on a strict prefix of a well-formed item"),
        Wf::Bad => {}
        Wf::Bound => assert!(false, "oracle bound exceeded"),
    }
}
#[cfg(feature = "alloc")]
macro_rules! stack_harness {
    ($name:ident, $p:expr, $uw:expr) => {
        #[kani::proof]
        #[kani::unwind($uw)]
        #[kani::stub(minicbor::decode::Error::with_message, m_with_message)]
        #[kani::stub(alloc::vec::Vec::new, m_vec_new)]
        #[kani::stub(alloc::vec::Vec::push, m_vec_push)]
        #[kani::stub(minicbor::decode::Decoder::u64, m_u64)]
        #[kani::stub(minicbor::decode::Decoder::int, m_int)]
        #[kani::stub(minicbor::decode::Decoder::array, m_array)]
        #[kani::stub(minicbor::decode::Decoder::map, m_map)]
        #[kani::stub(minicbor::decode::Decoder::unsigned, m_unsigned)]
        #[kani::stub(minicbor::decode::Decoder::bytes_iter, m_bytes_iter)]
        #[kani::stub(minicbor::decode::Decoder::str_iter, m_str_iter)]
        pub fn $name() { stack_mode::<$p>() }
    };
}
#[cfg(feature = "alloc")]
stack_harness!(c06_stack_mode_definite_top, 0, 11);
#[cfg(feature = "alloc")]
stack_harness!(c06_stack_mode_indefinite_top, 1, 10);
#[cfg(feature = "alloc")]
stack_harness!(c06_stack_mode_last_sibling, 2, 10);

/// Indefinite-length strings (`5f 41 a 42 b c ff` / the text analogue) and every strict prefix:
/// one harness per concrete cut point K; skip() is Ok only on the whole item.
pub fn chunked_prefix<const MAJOR: u8, const K: usize>() {
    let a: [u8; 3] = kani::any();
    let m = MAJOR << 5;
    let t = if MAJOR == 3 { 0x7f } else { 0xff };
    let buf = [m | 31, m | 1, a[0] & t, m | 2, a[1] & t, a[2] & t, 0xff, 0x00];
    let mut d = Decoder::new(&buf[..K]);
    let r = d.skip();
    if K >= 7 { assert!(r.is_ok() && d.position() == 7, "skip() did not end behind the break of the indefinite string") }
    else { assert!(r.is_err(), "skip() accepted a strict prefix of an indefinite string") }
}
