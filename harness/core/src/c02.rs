//! C02 — decoding untrusted bytes is total: no panic, in bounds, bounded work, position sane,
//! values dropped exactly once.  Kani's built-in checks (panic, arithmetic overflow, pointer
//! validity, bounds) are the "never panics / never reads outside the input" part: the input
//! array is its own CBMC object, so any out-of-range read is a failed pointer check; the
//! unwinding assertions bound the work.
use crate::util::*;
use minicbor::data::{Int, Tag, Type};
use minicbor::decode::{self, info::Size, Decode};
use minicbor::Decoder;
use vref::*;

/// Every typed accessor from an *arbitrary* start position (incl. beyond the end and usize::MAX).
macro_rules! setpos {
    ($name:ident, |$d:ident| $call:expr) => {
        #[kani::proof]
        #[kani::unwind(6)]
        pub fn $name() {
            let buf: [u8; 4] = kani::any();
            let len: usize = kani::any();
            kani::assume(len <= 4);
            let p: usize = kani::any();
            let mut $d = Decoder::new(&buf[..len]);
            $d.set_position(p);
            let r = $call;
            let after = $d.position();
            if p >= len {
                assert!(r.is_err(), "value produced from beyond the end of the input");
                assert!(after == p, "position moved although nothing could be read");
            } else {
                assert!(after <= len, "position beyond the input after a call that started inside it");
                assert!(after >= p, "position moved backwards");
            }
            kani::cover!(p == usize::MAX);
            kani::cover!(p == len);
            kani::cover!(p < len && r.is_ok());
        }
    };
}
setpos!(c02_setpos_bool, |d| d.bool());
setpos!(c02_setpos_u8, |d| d.u8());
setpos!(c02_setpos_u16, |d| d.u16());
setpos!(c02_setpos_u32, |d| d.u32());
setpos!(c02_setpos_u64, |d| d.u64());
setpos!(c02_setpos_i8, |d| d.i8());
setpos!(c02_setpos_i16, |d| d.i16());
setpos!(c02_setpos_i32, |d| d.i32());
setpos!(c02_setpos_i64, |d| d.i64());
setpos!(c02_setpos_int, |d| d.int());
setpos!(c02_setpos_f16, |d| d.f16());
setpos!(c02_setpos_f32, |d| d.f32());
setpos!(c02_setpos_f64, |d| d.f64());
setpos!(c02_setpos_char, |d| d.char());
setpos!(c02_setpos_bytes, |d| d.bytes());
setpos!(c02_setpos_array, |d| d.array());
setpos!(c02_setpos_map, |d| d.map());
setpos!(c02_setpos_tag, |d| d.tag());
setpos!(c02_setpos_null, |d| d.null());
setpos!(c02_setpos_undefined, |d| d.undefined());
setpos!(c02_setpos_simple, |d| d.simple());
setpos!(c02_setpos_datatype, |d| d.datatype());

#[kani::proof]
#[kani::unwind(6)]
#[kani::stub(core::str::from_utf8, crate::util::from_utf8_overapprox)]
pub fn c02_setpos_str() {
    let buf: [u8; 4] = kani::any();
    let p: usize = kani::any();
    let mut d = Decoder::new(&buf[..]);
    d.set_position(p);
    let r = d.str();
    if p >= 4 { assert!(r.is_err() && d.position() == p) } else { assert!(d.position() <= 4 && d.position() >= p) }
    kani::cover!(r.is_ok());
}

/// probe() never affects the decoder it was taken from.
#[kani::proof]
pub fn c02_probe_is_pure() {
    let (buf, len) = any_buf::<9>();
    let p: usize = kani::any();
    let mut d = Decoder::new(&buf[..len]);
    d.set_position(p);
    {
        let mut pr = d.probe();
        let _ = pr.u64();
        let _ = pr.array();
    }
    assert!(d.position() == p, "probe moved the decoder");
}

/// Size::head / Size::tail are total and agree with R1.
#[kani::proof]
pub fn c02_size_head_tail() {
    let (buf, len) = any_buf::<9>();
    let s = &buf[..len];
    let b: u8 = kani::any();
    let ai = b & 0x1f;
    let major = b >> 5;
    match Size::head(b) {
        Ok(n) => {
            let want = match ai { 0..=23 => 1, 24 => 2, 25 => 3, 26 => 5, 27 => 9, _ => 1 };
            assert!(n == want);
            assert!(ai <= 27 || (ai == 31 && (major == 2 || major == 3 || major == 4 || major == 5 || major == 7)));
        }
        Err(_) => assert!(ai >= 28 && (ai <= 30 || major <= 1 || major == 6)),
    }
    let t = Size::tail(s);
    match read_head(s, 0) {
        HeadR::Ok(h) => match t {
            Ok(Size::Head) => assert!(matches!(h.major, 0 | 1 | 6 | 7)),
            Ok(Size::Bytes(n)) => assert!((h.major == 2 || h.major == 3) && h.ai != 31 && n == h.arg),
            Ok(Size::Items(n)) => assert!((h.major == 4 || h.major == 5) && h.ai != 31 && n == h.arg),
            Ok(Size::Indef) => assert!(h.ai == 31 && h.major >= 2 && h.major <= 5),
            Err(_) => assert!(false, "tail() failed on a complete head"),
        },
        HeadR::Trunc => {
            if len == 0 { assert!(matches!(&t, Err(e) if e.is_end_of_input())) }
            else if matches!(buf[0] >> 5, 2 | 3 | 4 | 5) { assert!(matches!(&t, Err(e) if e.is_end_of_input())) }
        }
        HeadR::Reserved => {}
    }
    kani::cover!(matches!(t, Ok(Size::Items(_))));
}

/// Iterators drained on arbitrary 4-byte inputs: terminate within the unwind bound
/// (work proportional to the input: every step consumes a byte or ends), never panic.
#[kani::proof]
#[kani::unwind(7)]
pub fn c02_bytes_iter_drained() {
    let (buf, len) = any_buf::<4>();
    let mut d = Decoder::new(&buf[..len]);
    let mut steps = 0usize;
    if let Ok(it) = d.bytes_iter() {
        for x in it { steps += 1; if x.is_err() { break } }
    }
    assert!(steps <= len + 1, "more iterator steps than input bytes");
    assert!(d.position() <= len);
    kani::cover!(steps == 2);
}

#[kani::proof]
#[kani::unwind(7)]
#[kani::stub(core::str::from_utf8, crate::util::from_utf8_overapprox)]
pub fn c02_str_iter_drained() {
    let (buf, len) = any_buf::<4>();
    let mut d = Decoder::new(&buf[..len]);
    let mut steps = 0usize;
    if let Ok(it) = d.str_iter() {
        for x in it { steps += 1; if x.is_err() { break } }
    }
    assert!(steps <= len + 1);
    assert!(d.position() <= len);
    kani::cover!(steps == 2);
}

#[kani::proof]
#[kani::unwind(7)]
pub fn c02_array_iter_drained() {
    let (buf, len) = any_buf::<4>();
    let mut d = Decoder::new(&buf[..len]);
    let mut steps = 0usize;
    if let Ok(it) = d.array_iter::<u8>() {
        for x in it { steps += 1; if x.is_err() { break } }
    }
    assert!(steps <= len, "a declared length made the iterator run longer than the input");
    assert!(d.position() <= len);
    kani::cover!(steps == 3);
}

#[kani::proof]
#[kani::unwind(7)]
pub fn c02_map_iter_drained() {
    let (buf, len) = any_buf::<3>();
    let mut d = Decoder::new(&buf[..len]);
    let mut steps = 0usize;
    if let Ok(it) = d.map_iter::<u8, bool>() {
        for x in it { steps += 1; if x.is_err() { break } }
    }
    assert!(steps <= len);
    assert!(d.position() <= len);
    kani::cover!(steps == 1);
}

/// What an iterator PROMISES (`size_hint().0`) is what `collect()` / `extend()` pre-allocate: for a head
/// with ANY declared length (8-byte argument symbolic) followed by two one-byte items, the lower bound
/// may not exceed the number of items the input can still hold (each item takes at least one byte).
#[kani::proof]
pub fn c02_array_iter_size_hint_within_input() {
    let a: [u8; 8] = kani::any();
    let buf = [0x9b, a[0], a[1], a[2], a[3], a[4], a[5], a[6], a[7], 0x00, 0x00];
    let mut d = Decoder::new(&buf);
    match d.array_iter::<u8>() {
        Ok(it) => assert!(it.size_hint().0 <= 2, "array_iter promises more items than the input can hold"),
        Err(_) => assert!(false, "a complete array head was refused"),
    }
    let mut d = Decoder::new(&buf);
    let mut ctx = 0u8;
    match d.array_iter_with::<u8, u8>(&mut ctx) {
        Ok(it) => assert!(it.size_hint().0 <= 2, "array_iter_with promises more items than the input can hold"),
        Err(_) => assert!(false, "a complete array head was refused"),
    }
}

#[kani::proof]
pub fn c02_map_iter_size_hint_within_input() {
    let a: [u8; 8] = kani::any();
    let buf = [0xbb, a[0], a[1], a[2], a[3], a[4], a[5], a[6], a[7], 0x00, 0x00];
    let mut d = Decoder::new(&buf);
    match d.map_iter::<u8, u8>() {
        Ok(it) => assert!(it.size_hint().0 <= 1, "map_iter promises more entries than the input can hold"),
        Err(_) => assert!(false, "a complete map head was refused"),
    }
    let mut d = Decoder::new(&buf);
    let mut ctx = 0u8;
    match d.map_iter_with::<u8, u8, u8>(&mut ctx) {
        Ok(it) => assert!(it.size_hint().0 <= 1, "map_iter_with promises more entries than the input can hold"),
        Err(_) => assert!(false, "a complete map head was refused"),
    }
}

#[kani::proof]
pub fn c02_string_iters_size_hint_within_input() {
    let a: [u8; 2] = kani::any();
    let bb = [0x5f, 0x41, a[0], 0x41, a[1], 0xff];
    let mut d = Decoder::new(&bb);
    match d.bytes_iter() {
        Ok(it) => assert!(it.size_hint().0 <= 2),
        Err(_) => assert!(false),
    }
    let sb = [0x7f, 0x61, a[0] & 0x7f, 0x61, a[1] & 0x7f, 0xff];
    let mut d = Decoder::new(&sb);
    match d.str_iter() {
        Ok(it) => assert!(it.size_hint().0 <= 2),
        Err(_) => assert!(false),
    }
}

// ---- drop exactly once -----------------------------------------------------------------

static mut DROPS: u32 = 0;

/// Context counting constructions.
pub struct Ctr { made: u32 }

/// A value whose construction and destruction are counted.
pub struct D(u8);
impl<'b> Decode<'b, Ctr> for D {
    fn decode(d: &mut Decoder<'b>, c: &mut Ctr) -> Result<Self, decode::Error> {
        let x = d.u8()?;
        c.made += 1;
        Ok(D(x))
    }
}
impl Drop for D {
    fn drop(&mut self) { unsafe { DROPS += 1 } }
}

/// `[D; 3]` from arbitrary 5 bytes (definite or indefinite array header, any failure point):
/// every constructed element is dropped exactly once, on success and on every error path
/// (the ArrayVec MaybeUninit / mem::forget code).
#[kani::proof]
#[kani::unwind(7)]
pub fn c02_drop_once_array3() {
    let rest: [u8; 4] = kani::any();
    let hdr: u8 = kani::any();
    kani::assume(hdr == 0x9f || (hdr >= 0x80 && hdr <= 0x84));
    let buf = [hdr, rest[0], rest[1], rest[2], rest[3]];
    let mut c = Ctr { made: 0 };
    unsafe { DROPS = 0 }
    let ok;
    {
        let mut d = Decoder::new(&buf[..]);
        let r: Result<[D; 3], _> = d.decode_with(&mut c);
        ok = r.is_ok();
        if ok { assert!(c.made == 3) }
        kani::cover!(ok, "three elements decoded");
        kani::cover!(!ok && c.made == 2, "failure after two constructed elements");
        kani::cover!(!ok && c.made == 4, "too many elements");
        drop(r);
    }
    assert!(unsafe { DROPS } == c.made, "constructed values were not dropped exactly once");
}

#[kani::proof]
#[kani::unwind(7)]
pub fn c02_drop_once_tuple2() {
    let buf: [u8; 4] = kani::any();
    let mut c = Ctr { made: 0 };
    unsafe { DROPS = 0 }
    {
        let mut d = Decoder::new(&buf[..]);
        let r: Result<(D, D), _> = d.decode_with(&mut c);
        kani::cover!(r.is_err() && c.made == 1);
        kani::cover!(r.is_ok());
        drop(r);
    }
    assert!(unsafe { DROPS } == c.made);
}

/// Type-directed: `Duration` from `82 <u64 head> <u32 head>` with fully symbolic arguments
/// (every width of both fields is a separate concrete skeleton): Ok or Err, never a panic.
macro_rules! duration_td {
    ($name:ident, $h1:expr, $w1:expr, $h2:expr, $w2:expr) => {
        #[kani::proof]
        #[kani::unwind(10)]
        #[kani::stub(minicbor::decode::Decoder::skip, crate::util::skip_unreachable)]
        pub fn $name() {
            let a: [u8; 12] = kani::any();
            let mut buf = [0u8; 15];
            buf[0] = 0x82;
            buf[1] = $h1;
            let mut i = 0;
            while i < $w1 { buf[2 + i] = a[i]; i += 1; }
            buf[2 + $w1] = $h2;
            let mut j = 0;
            while j < $w2 { buf[3 + $w1 + j] = a[8 + j]; j += 1; }
            let mut d = Decoder::new(&buf[..3 + $w1 + $w2]);
            let r = d.decode::<core::time::Duration>();
            if let Ok(x) = r {
                assert!(d.position() == 3 + $w1 + $w2);
                assert!(x.subsec_nanos() < 1_000_000_000);
            }
            kani::cover!(r.is_ok());
        }
    };
}
duration_td!(c02_td_duration_8_4, 0x1b, 8, 0x1a, 4);
duration_td!(c02_td_duration_8_2, 0x1b, 8, 0x19, 2);
duration_td!(c02_td_duration_1_4, 0x18, 1, 0x1a, 4);

/// Heap collections: a declared length of up to 2^64-1 (8 symbolic length bytes) followed by two
/// items: the decoder returns Ok (declared == 2) or Err, never panics (a pre-allocation from the
/// declared length trips Kani's allocation-size / capacity-overflow check), and the work is
/// bounded by the input (unwinding assertion), not by the declared length.
#[cfg(feature = "alloc")]
pub mod with_alloc {
    use super::*;
    use alloc::collections::{BTreeSet, BinaryHeap, LinkedList, VecDeque};
    use alloc::vec::Vec;

    macro_rules! huge_len {
        ($name:ident, $t:ty) => {
            #[kani::proof]
            #[kani::unwind(6)]
            pub fn $name() {
                let a: [u8; 8] = kani::any();
                let buf = [0x9b, a[0], a[1], a[2], a[3], a[4], a[5], a[6], a[7], 0x01, 0x02];
                let mut d = Decoder::new(&buf[..]);
                let r = d.decode::<$t>();
                let declared = u64::from_be_bytes(a);
                match &r {
                    Ok(v) => { assert!(declared <= 2, "more elements than the input holds"); assert!(v.len() as u64 == declared) }
                    Err(_) => assert!(declared > 2),
                }
                assert!(d.position() <= buf.len());
                kani::cover!(declared == u64::MAX);
                kani::cover!(r.is_ok());
                core::mem::forget(r);
            }
        };
    }
    huge_len!(c02_alloc_vec_declared_len, Vec<u8>);
    huge_len!(c02_alloc_vecdeque_declared_len, VecDeque<u8>);
    huge_len!(c02_alloc_binaryheap_declared_len, BinaryHeap<u8>);
    huge_len!(c02_alloc_linkedlist_declared_len, LinkedList<u8>);
    // BTreeSet: the B-tree insert code does not finish symex in 10 min (pointer-rich heap): outside the bound
}
