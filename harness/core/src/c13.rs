//! C13 — bounded sinks: raw write_all sequences and sink independence.
//! (Encoding of every C01 row into a sink of symbolic capacity is `types::*::c13`.)
use crate::util::*;
use minicbor::encode::write::{Cursor, EndOfArray, EndOfSlice};
use minicbor::encode::Write;
use minicbor::Encoder;

const N: usize = 6;

/// Reference model of a bounded cursor: accepts a chunk iff it fits entirely.
struct Model { pos: usize, cap: usize }
impl Model { fn write(&mut self, n: usize) -> bool { if n <= self.cap - self.pos { self.pos += n; true } else { false } } }

/// Three write_all calls with symbolic lengths 0..=cap+1 on `Cursor<&mut [u8]>` of symbolic
/// capacity: Ok iff the chunk fits, position == bytes accepted so far (also after a refused
/// write), accepted bytes are in place, nothing outside the sink is touched.
#[kani::proof]
#[kani::unwind(9)]
pub fn c13_cursor_slice_write_all_seq() {
    let cap: usize = kani::any();
    kani::assume(cap <= N);
    let mut arena = [0xa5u8; N + 2];
    let src: [u8; N + 1] = kani::any();
    let mut m = Model { pos: 0, cap };
    {
        let mut c = Cursor::new(&mut arena[1..1 + cap]);
        let mut k = 0;
        while k < 3 {
            let n: usize = kani::any();
            kani::assume(n <= cap + 1);
            let before = c.position();
            let r = c.write_all(&src[..n]);
            let fits = m.write(n);
            assert!(r.is_ok() == fits, "write_all accepted/refused differently from 'it fits'");
            assert!(c.position() == m.pos, "position != number of bytes accepted so far");
            if !fits { assert!(c.position() == before) }
            k += 1;
        }
        kani::cover!(m.pos == cap && cap == N);
    }
    assert!(arena[0] == 0xa5 && arena[1 + cap] == 0xa5, "byte outside the sink touched");
    let mut i = 0;
    while i < N { if i >= m.pos && i < cap { assert!(arena[1 + i] == 0xa5, "byte written beyond the accepted prefix"); } i += 1; }
}

/// Same on the fixed-array cursor `Cursor<[u8; N]>`.
#[kani::proof]
#[kani::unwind(9)]
pub fn c13_cursor_array_write_all_seq() {
    let src: [u8; N + 1] = kani::any();
    let mut m = Model { pos: 0, cap: N };
    let mut c = Cursor::new([0xa5u8; N]);
    let mut k = 0;
    while k < 3 {
        let n: usize = kani::any();
        kani::assume(n <= N + 1);
        let before = c.position();
        let r = c.write_all(&src[..n]);
        let fits = m.write(n);
        assert!(r.is_ok() == fits);
        assert!(c.position() == m.pos, "position != number of bytes accepted so far");
        if !fits { assert!(c.position() == before) }
        k += 1;
    }
    let out = c.into_inner();
    let mut i = 0;
    while i < N { if i >= m.pos { assert!(out[i] == 0xa5); } i += 1; }
    kani::cover!(m.pos == N);
}

/// `&mut [u8]` sink: the remaining slice shrinks by exactly the accepted bytes.
#[kani::proof]
#[kani::unwind(9)]
pub fn c13_slice_write_all_seq() {
    let cap: usize = kani::any();
    kani::assume(cap <= N);
    let mut arena = [0xa5u8; N + 2];
    let src: [u8; N + 1] = kani::any();
    let mut m = Model { pos: 0, cap };
    {
        let mut s: &mut [u8] = &mut arena[1..1 + cap];
        let mut k = 0;
        while k < 3 {
            let n: usize = kani::any();
            kani::assume(n <= cap + 1);
            let r = s.write_all(&src[..n]);
            let fits = m.write(n);
            assert!(r.is_ok() == fits);
            assert!(s.len() == cap - m.pos, "remaining slice length != capacity - accepted");
            k += 1;
        }
    }
    assert!(arena[0] == 0xa5 && arena[1 + cap] == 0xa5);
}

/// Sink independence: the same value gives the same bytes in a `&mut [u8]`, a `Cursor<&mut [u8]>`
/// and a `Cursor<[u8; N]>`, and each succeeds iff the other does (same capacity).
#[kani::proof]
#[kani::unwind(12)]
pub fn c13_same_bytes_in_every_bounded_sink() {
    let v: (u16, Option<i8>) = kani::any();
    let mut a = [0u8; 8];
    let mut b = [0u8; 8];
    let ra = { let mut e = Encoder::new(&mut a[..]); e.encode(&v).is_ok() };
    let (rb, pb) = { let mut e = Encoder::new(Cursor::new(&mut b[..])); let r = e.encode(&v).is_ok(); (r, e.writer().position()) };
    let mut e = Encoder::new(Cursor::new([0u8; 8]));
    let rc = e.encode(&v).is_ok();
    let pc = e.writer().position();
    let c = e.into_writer().into_inner();
    assert!(ra && rb && rc);
    assert!(pb == pc);
    assert!(u64::from_le_bytes(a) == u64::from_le_bytes(b) && u64::from_le_bytes(b) == u64::from_le_bytes(c), "sinks disagree on the bytes");
    kani::cover!(pb == 6);
}

#[cfg(feature = "alloc")]
pub mod with_alloc {
    use super::*;
    use alloc::boxed::Box;
    use alloc::vec::Vec;

    /// `Cursor<Box<[u8]>>` and `Vec<u8>` produce the same bytes as the array cursor.
    #[kani::proof]
    #[kani::unwind(12)]
    #[kani::stub(minicbor::encode::Error::write, crate::util::encode_error_write_unreachable)]
    pub fn c13_t_boxed_and_vec_sinks() {
        let v: (u16, bool) = kani::any();
        let mut e = Encoder::new(Cursor::new([0u8; 8]));
        assert!(e.encode(&v).is_ok());
        let n = e.writer().position();
        let want = e.into_writer().into_inner();
        let bx: Box<[u8]> = Box::new([0u8; 8]);
        let mut e = Encoder::new(Cursor::new(bx));
        assert!(e.encode(&v).is_ok());
        assert!(e.writer().position() == n);
        let got = e.into_writer().into_inner();
        let mut i = 0;
        while i < 8 { assert!(got[i] == want[i]); i += 1; }
        let mut vec: Vec<u8> = Vec::with_capacity(8);
        let mut e = Encoder::new(&mut vec);
        assert!(e.encode(&v).is_ok());
        assert!(vec.len() == n);
        let mut i = 0;
        while i < 8 { if i < n { assert!(vec[i] == want[i]); } i += 1; }
    }

    /// A boxed cursor one byte too small refuses with a write error.
    #[kani::proof]
    #[kani::unwind(12)]
    pub fn c13_t_boxed_cursor_too_small() {
        let v: u32 = kani::any();
        let bx: Box<[u8]> = Box::new([0u8; 4]);
        let mut e = Encoder::new(Cursor::new(bx));
        let r = e.encode(&v).map(|_| ());
        let need = vref::head_len(v as u64);
        match r { Ok(()) => assert!(need <= 4 && e.writer().position() == need), Err(x) => assert!(need == 5 && x.is_write()) }
    }
}

#[cfg(feature = "std")]
pub mod with_std {
    use super::*;
    use minicbor::encode::write::Writer;
    use std::io;

    /// `io::Write` that accepts at most one byte per call, with a capacity.
    struct OneByte { out: [u8; 8], n: usize, cap: usize }
    impl io::Write for OneByte {
        fn write(&mut self, buf: &[u8]) -> io::Result<usize> {
            if buf.is_empty() || self.n >= self.cap { return Ok(0) }
            self.out[self.n] = buf[0];
            self.n += 1;
            Ok(1)
        }
        fn flush(&mut self) -> io::Result<()> { Ok(()) }
    }

    /// The std::io adapter: same bytes as the array cursor even when the underlying writer
    /// accepts one byte per call; a writer that runs full yields a write error (never Ok with
    /// truncated output).
    #[kani::proof]
    #[kani::unwind(12)]
    pub fn c13_std_writer_short_writes_and_capacity() {
        let v: (u16, bool) = kani::any();
        let cap: usize = kani::any();
        kani::assume(cap <= 6);
        let mut e = Encoder::new(Cursor::new([0u8; 8]));
        assert!(e.encode(&v).is_ok());
        let n = e.writer().position();
        let want = e.into_writer().into_inner();
        let mut e = Encoder::new(Writer::new(OneByte { out: [0; 8], n: 0, cap }));
        let r = e.encode(&v).map(|_| ());
        let w = e.into_writer().into_inner();
        match &r {
            Ok(()) => {
                assert!(n <= cap, "encoding into a full std::io writer reported success");
                assert!(w.n == n, "std::io adapter lost bytes under short writes");
                let mut i = 0;
                while i < 8 { if i < n { assert!(w.out[i] == want[i], "std::io adapter wrote different bytes"); } i += 1; }
            }
            Err(x) => {
                assert!(n > cap, "encoding failed although the writer had room");
                assert!(x.is_write());
                let mut i = 0;
                while i < 8 { if i < w.n { assert!(w.out[i] == want[i], "not a prefix of the encoding"); } i += 1; }
            }
        }
        kani::cover!(r.is_ok() && n == 5);
        kani::cover!(r.is_err());
        core::mem::forget(r);
    }
}
