//! C01 — round trip of the borrowing types (`&str`, `&ByteSlice`, `&CStr`): the decoded value
//! equals the encoded one, points INTO the input buffer, and the decoder consumed exactly the
//! bytes produced.  Content <= 3 bytes, all contents symbolic.
use crate::util::*;
use minicbor::bytes::ByteSlice;
use minicbor::{CborLen, Decoder};

#[kani::proof]
#[kani::unwind(10)]
pub fn c01_q_byteslice_borrowed() {
    let p: [u8; 3] = kani::any();
    let n: usize = kani::any();
    kani::assume(n <= 3);
    let v: &ByteSlice = (&p[..n]).into();
    let (out, pos, ok) = enc_cap(&v);
    assert!(ok && pos == n + 1);
    assert!(v.cbor_len(&mut ()) == pos);
    let buf: [u8; 4] = out[..4].try_into().unwrap();
    let mut d = Decoder::new(&buf[..]);
    let r = d.decode::<&ByteSlice>();
    assert!(r.is_ok());
    let w = r.unwrap();
    assert!(w.len() == n && w.as_ptr() == unsafe { buf.as_ptr().add(1) }, "decoded byte slice does not point into the input");
    let mut i = 0;
    while i < 3 { if i < n { assert!(w[i] == p[i]); } i += 1; }
    assert!(d.position() == pos);
}

#[kani::proof]
#[kani::unwind(10)]
pub fn c01_q_str_borrowed() {
    let p: [u8; 4] = kani::any();
    let n: usize = kani::any();
    kani::assume(n <= 3);
    kani::assume(vref::utf8_valid4(&p, n));
    let v: &str = unsafe { core::str::from_utf8_unchecked(&p[..n]) };
    let (out, pos, ok) = enc_cap(&v);
    assert!(ok && pos == n + 1);
    assert!(v.cbor_len(&mut ()) == pos);
    let buf: [u8; 4] = out[..4].try_into().unwrap();
    let mut d = Decoder::new(&buf[..]);
    let r = d.decode::<&str>();
    assert!(r.is_ok(), "valid text produced by the encoder rejected by the decoder");
    let w = r.unwrap();
    assert!(w.len() == n && w.as_ptr() == unsafe { buf.as_ptr().add(1) }, "decoded str does not point into the input");
    let mut i = 0;
    while i < 3 { if i < n { assert!(w.as_bytes()[i] == p[i]); } i += 1; }
    assert!(d.position() == pos);
}

#[kani::proof]
#[kani::unwind(10)]
pub fn c01_q_cstr_borrowed() {
    let p: [u8; 2] = kani::any();
    kani::assume(p[0] != 0 && p[1] != 0);
    let raw = [p[0], p[1], 0];
    let v = core::ffi::CStr::from_bytes_with_nul(&raw[..]).unwrap();
    let (out, pos, ok) = enc_cap(&v);
    assert!(ok && pos == 4 && out[0] == 0x43);
    assert!(v.cbor_len(&mut ()) == pos);
    let buf: [u8; 4] = out[..4].try_into().unwrap();
    let mut d = Decoder::new(&buf[..]);
    let r = d.decode::<&core::ffi::CStr>();
    assert!(r.is_ok());
    let w = r.unwrap();
    assert!(w.to_bytes_with_nul().as_ptr() == unsafe { buf.as_ptr().add(1) });
    assert!(w.to_bytes()[0] == p[0] && w.to_bytes()[1] == p[1]);
    assert!(d.position() == pos);
}
