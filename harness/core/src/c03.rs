//! C03 — every Encoder method writes exactly the RFC 8949 preferred (shortest) form of the
//! data-model value given; deterministic; balanced call sequences are one well-formed item.
//! (The built-in `Encode` impls are covered by the `types::*::c03` rows.)
use crate::util::*;
use minicbor::data::{Int, Tag};
use minicbor::encode::write::Cursor;
use minicbor::encode::Write;
use minicbor::Encoder;
use vref::*;

type E = Encoder<Cursor<[u8; CAP]>>;

fn run(f: impl FnOnce(&mut E) -> bool) -> ([u8; CAP], usize) {
    let mut e = Encoder::new(Cursor::new([0u8; CAP]));
    let ok = f(&mut e);
    assert!(ok, "encoder method failed on a large enough buffer");
    let c = e.into_writer();
    let p = c.position();
    (c.into_inner(), p)
}

fn expect_head(out: &([u8; CAP], usize), major: u8, arg: u64) {
    let mut r = RefBuf::new();
    r.head(major, arg);
    assert!(out.1 == r.n, "length differs from the shortest head");
    assert!(eq_cap(&out.0, &r.b), "bytes differ from the preferred serialisation");
}

macro_rules! int_method {
    ($name:ident, $t:ty, $m:ident) => {
        #[kani::proof]
        #[kani::unwind(10)]
        pub fn $name() {
            let x: $t = kani::any();
            let out = run(|e| e.$m(x).is_ok());
            let v = x as i128;
            if v >= 0 { expect_head(&out, 0, v as u64) } else { expect_head(&out, 1, (-1 - v) as u64) }
            let out2 = run(|e| e.$m(x).is_ok());
            assert!(out.1 == out2.1 && eq_cap(&out.0, &out2.0), "not deterministic");
            kani::cover!(out.1 == 1);
            kani::cover!(out.1 == 2);
        }
    };
}
int_method!(c03_u8, u8, u8);
int_method!(c03_u16, u16, u16);
int_method!(c03_u32, u32, u32);
int_method!(c03_u64, u64, u64);
int_method!(c03_i8, i8, i8);
int_method!(c03_i16, i16, i16);
int_method!(c03_i32, i32, i32);
int_method!(c03_i64, i64, i64);

#[kani::proof]
#[kani::unwind(10)]
pub fn c03_int() {
    let v: i128 = kani::any();
    kani::assume(v >= -(1i128 << 64) && v <= (1i128 << 64) - 1);
    let x = Int::try_from(v).unwrap();
    let out = run(|e| e.int(x).is_ok());
    if v >= 0 { expect_head(&out, 0, v as u64) } else { expect_head(&out, 1, (-1 - v) as u64) }
    kani::cover!(out.1 == 9 && v < 0);
}

#[kani::proof]
#[kani::unwind(10)]
pub fn c03_char() {
    let c: char = kani::any();
    let out = run(|e| e.char(c).is_ok());
    expect_head(&out, 0, c as u32 as u64);
}

macro_rules! len_method {
    ($name:ident, $major:expr, |$e:ident, $n:ident| $call:expr) => {
        #[kani::proof]
        #[kani::unwind(10)]
        pub fn $name() {
            let $n: u64 = kani::any();
            let out = run(|$e| $call.is_ok());
            expect_head(&out, $major, $n);
            kani::cover!(out.1 == 5);
            kani::cover!(out.1 == 9);
        }
    };
}
len_method!(c03_tag, 6, |e, n| e.tag(Tag::new(n)));
len_method!(c03_array, 4, |e, n| e.array(n));
len_method!(c03_map, 5, |e, n| e.map(n));

/// bool / null / undefined / begin_* / end: fixed single bytes.
#[kani::proof]
pub fn c03_fixed_bytes() {
    let b: bool = kani::any();
    let o = run(|e| e.bool(b).is_ok());
    assert!(o.1 == 1 && o.0[0] == if b { 0xf5 } else { 0xf4 });
    let o = run(|e| e.null().is_ok());
    assert!(o.1 == 1 && o.0[0] == 0xf6);
    let o = run(|e| e.undefined().is_ok());
    assert!(o.1 == 1 && o.0[0] == 0xf7);
    let o = run(|e| e.begin_array().is_ok());
    assert!(o.1 == 1 && o.0[0] == 0x9f);
    let o = run(|e| e.begin_map().is_ok());
    assert!(o.1 == 1 && o.0[0] == 0xbf);
    let o = run(|e| e.begin_bytes().is_ok());
    assert!(o.1 == 1 && o.0[0] == 0x5f);
    let o = run(|e| e.begin_str().is_ok());
    assert!(o.1 == 1 && o.0[0] == 0x7f);
    let o = run(|e| e.end().is_ok());
    assert!(o.1 == 1 && o.0[0] == 0xff);
}

/// simple(x) for every x outside the known finding 20..=31 (see known_findings.json):
/// one byte `e0|x` below 20, `f8 x` from 32 (RFC 8949 3.3); and the output is well-formed.
#[kani::proof]
#[kani::unwind(10)]
pub fn c03_simple_outside_known_region() {
    let x: u8 = kani::any();
    kani::assume(!(x >= 20 && x <= 31));
    let o = run(|e| e.simple(x).is_ok());
    if x < 20 { assert!(o.1 == 1 && o.0[0] == 0xe0 | x) } else { assert!(o.1 == 2 && o.0[0] == 0xf8 && o.0[1] == x) }
    match wellformed::<2>(&o.0[..2], 0, 2) {
        Wf::Ok { end, .. } => assert!(end == o.1),
        _ => assert!(false, "simple() output is not a well-formed item"),
    }
    kani::cover!(x == 32);
    kani::cover!(x == 19);
}

/// floats are written at the width of the Rust type.
#[kani::proof]
pub fn c03_float_widths() {
    let a: u32 = kani::any();
    let o = run(|e| e.f32(f32::from_bits(a)).is_ok());
    assert!(o.1 == 5 && o.0[0] == 0xfa && u32::from_be_bytes([o.0[1], o.0[2], o.0[3], o.0[4]]) == a);
    let b: u64 = kani::any();
    let o = run(|e| e.f64(f64::from_bits(b)).is_ok());
    assert!(o.1 == 9 && o.0[0] == 0xfb);
    assert!(u64::from_be_bytes([o.0[1], o.0[2], o.0[3], o.0[4], o.0[5], o.0[6], o.0[7], o.0[8]]) == b);
}

/// bytes / str with a symbolic payload of up to 4 bytes: head(major, len) ++ payload.
#[kani::proof]
#[kani::unwind(10)]
pub fn c03_bytes_payload() {
    let p: [u8; 4] = kani::any();
    let n: usize = kani::any();
    kani::assume(n <= 4);
    let out = run(|e| e.bytes(&p[..n]).is_ok());
    let mut r = RefBuf::new();
    r.head(2, n as u64);
    r.raw(&p[..n]);
    assert!(out.1 == r.n && eq_cap(&out.0, &r.b));
    kani::cover!(n == 4);
}

#[kani::proof]
#[kani::unwind(10)]
pub fn c03_str_payload() {
    let p: [u8; 4] = kani::any();
    let n: usize = kani::any();
    kani::assume(n <= 4);
    kani::assume(utf8_valid4(&p, n));
    let s = unsafe { core::str::from_utf8_unchecked(&p[..n]) };
    let out = run(|e| e.str(s).is_ok());
    let mut r = RefBuf::new();
    r.head(3, n as u64);
    r.raw(&p[..n]);
    assert!(out.1 == r.n && eq_cap(&out.0, &r.b));
    kani::cover!(n == 4 && p[0] == 0xf0);
}

/// A sink that only counts and remembers the first 9 bytes: lets slice *lengths* range up to
/// 2^16+1 without payload loops (the payload is written by one write_all call).
struct CountSink { first: [u8; 9], n: usize, calls: usize }
/// (not `Infallible`: Kani 0.68 ICEs on `encode::Error::<Infallible>::write` in alloc builds)
#[derive(Debug)]
pub struct NoErr;
impl Write for CountSink {
    type Error = NoErr;
    fn write_all(&mut self, buf: &[u8]) -> Result<(), Self::Error> {
        if self.calls < 2 {
            // heads are written with at most two calls (initial byte, argument)
            let mut i = 0;
            while i < 8 { if i < buf.len() && self.n + i < 9 { self.first[self.n + i] = buf[i]; } i += 1; }
        }
        self.calls += 1;
        self.n += buf.len();
        Ok(())
    }
}

static BIG: [u8; 65538] = [0x61; 65538];

/// Lengths of byte/text strings use the shortest head up to the 2-byte/4-byte boundary.
#[kani::proof]
#[kani::unwind(10)]
pub fn c03_bytes_len_head_up_to_65537() {
    let n: usize = kani::any();
    kani::assume(n <= 65537);
    let text: bool = kani::any();
    let mut e = Encoder::new(CountSink { first: [0; 9], n: 0, calls: 0 });
    let ok = if text {
        let s = unsafe { core::str::from_utf8_unchecked(&BIG[..n]) };
        e.str(s).is_ok()
    } else {
        e.bytes(&BIG[..n]).is_ok()
    };
    assert!(ok);
    let s = e.into_writer();
    let (h, w) = put_head(if text { 3 } else { 2 }, n as u64);
    assert!(s.n == w + n, "total length differs from head + payload");
    let mut i = 0;
    while i < 5 { if i < w { assert!(s.first[i] == h[i], "string head is not the shortest form"); } i += 1; }
    kani::cover!(n == 65536);
    kani::cover!(n == 255);
    kani::cover!(n == 24);
}

/// Sequences of encoder calls: the encoder is stateless, so the output of ANY sequence of 4
/// calls (the call kinds symbolic, one-byte arguments so that the cursor stays concrete) is the
/// concatenation of the reference bytes of each call; hence when the call sequence is balanced
/// (R3 accepts the reference bytes as exactly one item) the real output is that one item.
#[kani::proof]
#[kani::unwind(12)]
pub fn c03_call_sequences_4() {
    let mut e = Encoder::new(Cursor::new([0u8; 8]));
    let mut r = [0u8; 8];
    let mut i = 0;
    while i < 4 {
        let op: u8 = kani::any();
        kani::assume(op < 10);
        let (ok, b) = match op {
            0 => (e.array(2).is_ok(), 0x82),
            1 => (e.array(1).is_ok(), 0x81),
            2 => (e.map(1).is_ok(), 0xa1),
            3 => (e.begin_array().is_ok(), 0x9f),
            4 => (e.begin_map().is_ok(), 0xbf),
            5 => (e.end().is_ok(), 0xff),
            6 => (e.u8(7).is_ok(), 0x07),
            7 => (e.null().is_ok(), 0xf6),
            8 => (e.array(0).is_ok(), 0x80),
            _ => (e.tag(Tag::new(1)).is_ok(), 0xc1),
        };
        assert!(ok);
        r[i] = b;
        i += 1;
    }
    let c = e.into_writer();
    let pos = c.position();
    let out = c.into_inner();
    assert!(pos == 4, "four one-byte calls did not write four bytes");
    assert!(u64::from_le_bytes(out) == u64::from_le_bytes(r), "output is not the concatenation of the calls' encodings");
    let wf_ref = wellformed::<4>(&r[..4], 0, 5);
    let wf_out = wellformed::<4>(&out[..4], 0, 5);
    assert!(wf_ref == wf_out);
    kani::cover!(matches!(wf_out, Wf::Ok { end: 4, .. }), "a balanced 4-call sequence exists");
}

/// An iterator with an arbitrary (but lawful) size hint: it yields `n` items and reports any
/// `(lo, hi)` with `lo <= n` and (`hi` absent or `n <= hi`).
#[derive(Clone)]
pub struct Hinted { n: u8, i: u8, lo: usize, hi: Option<usize> }
impl Iterator for Hinted {
    type Item = u8;
    fn next(&mut self) -> Option<u8> { if self.i < self.n { self.i += 1; Some(self.i) } else { None } }
    fn size_hint(&self) -> (usize, Option<usize>) { (self.lo, self.hi) }
}
fn any_hinted() -> Hinted {
    let n: u8 = kani::any();
    kani::assume(n <= 2);
    let lo: usize = kani::any();
    kani::assume(lo <= n as usize);
    let hi: Option<usize> = if kani::any() { let h: usize = kani::any(); kani::assume(h >= n as usize && h <= 3); Some(h) } else { None };
    Hinted { n, i: 0, lo, hi }
}

/// `encode::ArrayIter` over any lawful iterator: the output is exactly one well-formed array
/// (definite with the right count, or indefinite closed by a break) holding the items in order.
#[kani::proof]
#[kani::unwind(8)]
pub fn c03_array_iter_any_size_hint() {
    let it = any_hinted();
    let n = it.n as usize;
    let mut e = Encoder::new(Cursor::new([0u8; 8]));
    assert!(e.encode(minicbor::encode::ArrayIter::new(it.clone())).is_ok());
    let c = e.into_writer();
    let pos = c.position();
    let out = c.into_inner();
    match wellformed::<2>(&out[..], 0, 5) {
        Wf::Ok { end, .. } => assert!(end == pos, "ArrayIter output is not exactly one item"),
        _ => assert!(false, "ArrayIter output is not well-formed"),
    }
    if out[0] == 0x9f { assert!(pos == n + 2 && out[n + 1] == 0xff) } else { assert!(out[0] == 0x80 | n as u8 && pos == n + 1, "definite head does not carry the number of items") }
    let mut i = 0;
    while i < 2 { if i < n { assert!(out[1 + i] == (i + 1) as u8); } i += 1; }
    kani::cover!(out[0] == 0x9f && n == 2);
    kani::cover!(out[0] == 0x82);
}

#[derive(Clone)]
pub struct HintedPairs(Hinted);
impl Iterator for HintedPairs {
    type Item = (u8, bool);
    fn next(&mut self) -> Option<(u8, bool)> { self.0.next().map(|k| (k, true)) }
    fn size_hint(&self) -> (usize, Option<usize>) { self.0.size_hint() }
}

/// `encode::MapIter` likewise.
#[kani::proof]
#[kani::unwind(8)]
pub fn c03_map_iter_any_size_hint() {
    let it = HintedPairs(any_hinted());
    let n = it.0.n as usize;
    let mut e = Encoder::new(Cursor::new([0u8; 8]));
    assert!(e.encode(minicbor::encode::MapIter::new(it.clone())).is_ok());
    let c = e.into_writer();
    let pos = c.position();
    let out = c.into_inner();
    match wellformed::<2>(&out[..], 0, 6) {
        Wf::Ok { end, .. } => assert!(end == pos, "MapIter output is not exactly one item"),
        _ => assert!(false, "MapIter output is not well-formed"),
    }
    if out[0] == 0xbf { assert!(pos == 2 * n + 2 && out[2 * n + 1] == 0xff) } else { assert!(out[0] == 0xa0 | n as u8 && pos == 2 * n + 1, "definite head does not carry the number of entries") }
    kani::cover!(out[0] == 0xbf && n == 2);
    kani::cover!(out[0] == 0xa2);
}
