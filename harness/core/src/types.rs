//! Table of built-in codec types: for each concrete instantiation `T` an arbitrary value
//! `V(T)` and an *independent reference encoding* (R2/R6 style, written from the data-model
//! value).  One macro expands a row into the harnesses of C01 (round trip), C03 (bytes ==
//! reference, deterministic), C04 (every strict prefix => end-of-input), C07 (CborLen exact)
//! and C13 (bounded sink).  Harness path: `types::<row>::<tier>::<c01|c03|c04|c07|c13>`.
use crate::util::*;
use core::num::*;
use core::ops::*;
use core::cell::*;
use core::sync::atomic::*;
use core::time::Duration;
use core::marker::PhantomData;
use minicbor::bytes::*;
use minicbor::data::{Int, Tag, Tagged};
use minicbor::encode::write::Cursor;
use minicbor::{CborLen, Decoder, Encoder};

macro_rules! codec {
    ($m:ident, $tier:ident, $T:ty, len = $N:expr, unwind = $uw:expr, skip = $sk:path, $(fix0: $fix0:expr,)? $(pfx: { $($km:ident = $k:expr),* },)?
     gen: $gen:expr,
     refenc: |$v:ident, $r:ident| $refenc:block,
     eq: |$a:ident, $b:ident| $eq:expr) => {
        pub mod $m { pub mod $tier {
            use super::super::*;
            fn gen() -> $T { $gen }
            fn refenc($v: &$T, $r: &mut RefBuf) $refenc
            fn same($a: &$T, $b: &$T) -> bool { $eq }

            /// C03: bytes == reference encoding; deterministic; nothing written past the end.
            #[kani::proof]
            #[kani::unwind($uw)]
            pub fn c03() {
                let v = gen();
                let mut r = RefBuf::new();
                refenc(&v, &mut r);
                let (out, pos, ok) = enc_cap(&v);
                assert!(ok, "encoding into a large enough buffer failed");
                assert!(pos == r.n, "number of bytes written differs from the reference encoding");
                assert!(eq_cap(&out, &r.b), "bytes differ from the reference encoding");
                let (out2, pos2, _) = enc_cap(&v);
                assert!(pos2 == pos && eq_cap(&out, &out2), "encoding twice gives different bytes");
                kani::cover!(true);
            }

            /// C07: CborLen == number of bytes written.
            #[kani::proof]
            #[kani::unwind($uw)]
            pub fn c07() {
                let v = gen();
                let (_, pos, ok) = enc_cap(&v);
                assert!(ok);
                let n = v.cbor_len(&mut ());
                assert!(n == pos, "cbor_len differs from the number of bytes written");
                kani::cover!(true);
            }

            /// C01: decode(encode(v)) == v, consuming exactly what was produced.  The decoder reads
            /// from a fresh array of the row's maximal encoded length (concrete slice length; the
            /// bytes after `pos` are the zero padding of the output buffer, i.e. an arbitrary-but-fixed
            /// suffix) and must stop exactly at `pos`.
            #[kani::proof]
            #[kani::unwind($uw)]
            #[kani::stub(minicbor::decode::Decoder::skip, $sk)]
            pub fn c01() {
                let v = gen();
                let (out, pos, ok) = enc_cap(&v);
                assert!(ok);
                assert!(pos <= $N, "row's maximal encoded length is wrong");
                #[allow(unused_mut)]
                let mut buf: [u8; $N] = out[..$N].try_into().unwrap();
                // the constant first byte is asserted and then re-concretised so that CBMC's constant
                // propagation survives the path merges of the encoder (sound: guarded by the assertion)
                $( assert!(buf[0] == $fix0, "first byte"); buf[0] = $fix0; )?
                let mut d = Decoder::new(&buf[..]);
                let r = d.decode::<$T>();
                assert!(r.is_ok(), "decoding the produced bytes failed");
                let w = r.unwrap();
                assert!(same(&v, &w), "decoded value differs");
                assert!(d.position() == pos, "decoder did not consume exactly the produced bytes");
                kani::cover!(true);
            }

            /// C04 (prefix clause) + C02: the strict prefix of length K of the encoding is an
            /// end-of-input error.  One harness per concrete cut point K (a symbolic slice length,
            /// or several decodes in one harness, make CBMC's encoding explode: measured).
            fn prefix_at<const K: usize>() {
                let v = gen();
                let (out, pos, ok) = enc_cap(&v);
                assert!(ok);
                assert!(pos <= $N);
                #[allow(unused_mut)]
                let mut buf: [u8; $N] = out[..$N].try_into().unwrap();
                $( assert!(buf[0] == $fix0, "first byte"); buf[0] = $fix0; )?
                if K < pos {
                    let mut d = Decoder::new(&buf[..K]);
                    let r = d.decode::<$T>();
                    assert!(r.is_err(), "strict prefix decoded successfully");
                    if let Err(e) = r { assert!(e.is_end_of_input(), "strict prefix: error class is not end-of-input"); }
                    assert!(d.position() <= K, "position beyond the input");
                    kani::cover!(true, "prefix is strict for some value");
                }
            }
            $(pub mod c04 { $(pub mod $km {
                #[kani::proof]
                #[kani::unwind($uw)]
                #[kani::stub(minicbor::decode::Decoder::skip, $sk)]
                pub fn h() { super::super::prefix_at::<{ $k }>() }
            })* })?

            /// C13: bounded sink of symbolic capacity: Ok iff it fits; prefix left; canaries intact.
            #[kani::proof]
            #[kani::unwind(34)]
            pub fn c13() {
                let v = gen();
                let mut r = RefBuf::new();
                refenc(&v, &mut r);
                let cap: usize = kani::any();
                kani::assume(cap <= r.n + 1);
                let mut arena = [0xa5u8; CAP + 2];
                let res = {
                    let sink: &mut [u8] = &mut arena[1..1 + cap];
                    let mut e = Encoder::new(sink);
                    let res = e.encode(&v).map(|_| ());
                    res
                };
                assert!(arena[0] == 0xa5 && arena[1 + cap] == 0xa5, "byte outside the sink touched");
                match res {
                    Ok(()) => {
                        assert!(r.n <= cap, "encoding succeeded although it does not fit");
                        let mut i = 0;
                        while i < CAP { if i < r.n { assert!(arena[1 + i] == r.b[i]); } i += 1; }
                    }
                    Err(e) => {
                        assert!(r.n > cap, "encoding failed although it fits");
                        assert!(e.is_write(), "error is not a write error");
                    }
                }
                kani::cover!(cap + 1 == r.n);
                kani::cover!(cap == r.n);
            }
        }}
    };
}

fn u64_of_i(v: i128) -> (u8, u64) { if v >= 0 { (0, v as u64) } else { (1, (-1 - v) as u64) } }

macro_rules! prim_int {
    ($m:ident, $T:ty, $N:expr, { $($km:ident = $k:expr),* }) => {
        codec!($m, q, $T, len = $N, unwind = 10, skip = crate::util::skip_unreachable, pfx: { $($km = $k),* }, gen: kani::any(),
            refenc: |v, r| { r.int(*v as i128) }, eq: |a, b| a == b);
    };
}
prim_int!(u8_, u8, 2, { k1 = 1 });
prim_int!(u16_, u16, 3, { k1 = 1, k2 = 2 });
prim_int!(u32_, u32, 5, { k1 = 1, k2 = 2, k4 = 4 });
prim_int!(u64_, u64, 9, { k1 = 1, k4 = 4, k8 = 8 });
prim_int!(i8_, i8, 2, { k1 = 1 });
prim_int!(i16_, i16, 3, { k2 = 2 });
prim_int!(i32_, i32, 5, { k3 = 3, k4 = 4 });
prim_int!(i64_, i64, 9, { k5 = 5, k8 = 8 });
prim_int!(usize_, usize, 9, { k8 = 8 });
prim_int!(isize_, isize, 9, { k8 = 8 });

codec!(bool_, q, bool, len = 1, unwind = 10, skip = crate::util::skip_unreachable, pfx: {  }, gen: kani::any(),
    refenc: |v, r| { r.byte(if *v { 0xf5 } else { 0xf4 }) }, eq: |a, b| a == b);
codec!(char_, q, char, len = 5, unwind = 10, skip = crate::util::skip_unreachable, pfx: { k1 = 1, k2 = 2, k4 = 4 }, gen: kani::any(),
    refenc: |v, r| { r.uint(*v as u32 as u64) }, eq: |a, b| a == b);
codec!(f32_, q, f32, len = 5, unwind = 10, skip = crate::util::skip_unreachable, pfx: { k1 = 1, k4 = 4 }, gen: f32::from_bits(kani::any()),
    refenc: |v, r| { r.byte(0xfa); r.be32(v.to_bits()) }, eq: |a, b| a.to_bits() == b.to_bits());
codec!(f64_, q, f64, len = 9, unwind = 11, skip = crate::util::skip_unreachable, pfx: { k1 = 1, k8 = 8 }, gen: f64::from_bits(kani::any()),
    refenc: |v, r| { r.byte(0xfb); r.be64(v.to_bits()) }, eq: |a, b| a.to_bits() == b.to_bits());
codec!(unit_, q, (), len = 1, unwind = 10, skip = crate::util::skip_unreachable, fix0: 0x80, pfx: {  }, gen: (),
    refenc: |_v, r| { r.byte(0x80) }, eq: |_a, _b| true);
codec!(phantom_, q, PhantomData<u8>, len = 1, unwind = 10, skip = crate::util::skip_unreachable, fix0: 0x80, gen: PhantomData,
    refenc: |_v, r| { r.byte(0x80) }, eq: |_a, _b| true);

fn any_int() -> Int {
    let x: i128 = kani::any();
    kani::assume(x >= -(1i128 << 64) && x <= (1i128 << 64) - 1);
    Int::try_from(x).unwrap()
}
codec!(int_, q, Int, len = 9, unwind = 11, skip = crate::util::skip_unreachable, pfx: { k1 = 1, k8 = 8 }, gen: any_int(),
    refenc: |v, r| { r.int(i128::from(*v)) }, eq: |a, b| a == b);
codec!(tag_, q, Tag, len = 9, unwind = 11, skip = crate::util::skip_unreachable, pfx: { k8 = 8 }, gen: Tag::new(kani::any()),
    refenc: |v, r| { r.head(6, v.as_u64()) }, eq: |a, b| a == b);
codec!(tagged_, q, Tagged<1000, u16>, len = 6, unwind = 10, skip = crate::util::skip_unreachable, pfx: { k1 = 1, k2 = 2, k3 = 3, k4 = 4, k5 = 5 }, gen: Tagged::new(kani::any()),
    refenc: |v, r| { r.head(6, 1000); r.uint(*v.value() as u64) }, eq: |a, b| a == b);

// NonZero / Wrapping / Cell / RefCell / atomics
macro_rules! nz {
    ($m:ident, $T:ty, $P:ty, $N:expr) => {
        codec!($m, q, $T, len = $N, unwind = 10, skip = crate::util::skip_unreachable,
            gen: { let x: $P = kani::any(); kani::assume(x != 0); <$T>::new(x).unwrap() },
            refenc: |v, r| { r.int(v.get() as i128) }, eq: |a, b| a == b);
    };
}
nz!(nz_u8, NonZeroU8, u8, 2);
nz!(nz_u16, NonZeroU16, u16, 3);
nz!(nz_u32, NonZeroU32, u32, 5);
nz!(nz_u64, NonZeroU64, u64, 9);
nz!(nz_usize, NonZeroUsize, usize, 9);
nz!(nz_i8, NonZeroI8, i8, 2);
nz!(nz_i16, NonZeroI16, i16, 3);
nz!(nz_i32, NonZeroI32, i32, 5);
nz!(nz_i64, NonZeroI64, i64, 9);
nz!(nz_isize, NonZeroIsize, isize, 9);

codec!(wrapping_, q, Wrapping<i16>, len = 3, unwind = 10, skip = crate::util::skip_unreachable, pfx: { k2 = 2 }, gen: Wrapping(kani::any()),
    refenc: |v, r| { r.int(v.0 as i128) }, eq: |a, b| a == b);
codec!(cell_, q, Cell<u32>, len = 5, unwind = 10, skip = crate::util::skip_unreachable, pfx: { k4 = 4 }, gen: Cell::new(kani::any()),
    refenc: |v, r| { r.uint(v.get() as u64) }, eq: |a, b| a == b);
codec!(refcell_, q, RefCell<i8>, len = 2, unwind = 10, skip = crate::util::skip_unreachable, pfx: { k1 = 1 }, gen: RefCell::new(kani::any()),
    refenc: |v, r| { r.int(*v.borrow() as i128) }, eq: |a, b| a == b);

macro_rules! atomic {
    ($m:ident, $T:ty, $P:ty, $N:expr) => {
        codec!($m, t, $T, len = $N, unwind = 10, skip = crate::util::skip_unreachable, gen: <$T>::new(kani::any::<$P>()),
            refenc: |v, r| { r.int(v.load(Ordering::SeqCst) as i128) },
            eq: |a, b| a.load(Ordering::SeqCst) == b.load(Ordering::SeqCst));
    };
}
codec!(atomic_bool, t, AtomicBool, len = 1, unwind = 10, skip = crate::util::skip_unreachable, gen: AtomicBool::new(kani::any()),
    refenc: |v, r| { r.byte(if v.load(Ordering::SeqCst) { 0xf5 } else { 0xf4 }) },
    eq: |a, b| a.load(Ordering::SeqCst) == b.load(Ordering::SeqCst));
atomic!(atomic_u8, AtomicU8, u8, 2);
atomic!(atomic_u16, AtomicU16, u16, 3);
atomic!(atomic_u32, AtomicU32, u32, 5);
atomic!(atomic_u64, AtomicU64, u64, 9);
atomic!(atomic_usize, AtomicUsize, usize, 9);
atomic!(atomic_i8, AtomicI8, i8, 2);
atomic!(atomic_i16, AtomicI16, i16, 3);
atomic!(atomic_i32, AtomicI32, i32, 5);
atomic!(atomic_i64, AtomicI64, i64, 9);
atomic!(atomic_isize, AtomicIsize, isize, 9);

// Compound types over primitives.
codec!(result_, q, Result<u8, bool>, len = 4, unwind = 10, skip = crate::util::skip_unreachable, fix0: 0x82,
    pfx: { k1 = 1, k2 = 2 }, gen: { if kani::any() { Ok(kani::any()) } else { Err(kani::any()) } },
    refenc: |v, r| { r.byte(0x82); match v { Ok(x) => { r.byte(0x00); r.uint(*x as u64) } Err(b) => { r.byte(0x01); r.byte(if *b { 0xf5 } else { 0xf4 }) } } },
    eq: |a, b| a == b);
codec!(tuple1, q, (u16,), len = 4, unwind = 10, skip = crate::util::skip_unreachable, fix0: 0x81, pfx: { k1 = 1, k2 = 2, k3 = 3 }, gen: (kani::any(),),
    refenc: |v, r| { r.byte(0x81); r.uint(v.0 as u64) }, eq: |a, b| a == b);
codec!(tuple2, q, (u8, bool), len = 4, unwind = 10, skip = crate::util::skip_unreachable, fix0: 0x82, pfx: { k1 = 1, k2 = 2, k3 = 3 }, gen: (kani::any(), kani::any()),
    refenc: |v, r| { r.byte(0x82); r.uint(v.0 as u64); r.byte(if v.1 { 0xf5 } else { 0xf4 }) }, eq: |a, b| a == b);
codec!(tuple3, q, (i8, u32, char), len = 13, unwind = 15, skip = crate::util::skip_unreachable, fix0: 0x83, pfx: { k1 = 1, k3 = 3, k7 = 7, k8 = 8, k12 = 12 }, gen: (kani::any(), kani::any(), kani::any()),
    refenc: |v, r| { r.byte(0x83); r.int(v.0 as i128); r.uint(v.1 as u64); r.uint(v.2 as u32 as u64) }, eq: |a, b| a == b);
codec!(tuple4, t, (u8, u8, i16, bool), len = 9, unwind = 11, skip = crate::util::skip_unreachable, fix0: 0x84, pfx: { k1 = 1, k8 = 8 }, gen: (kani::any(), kani::any(), kani::any(), kani::any()),
    refenc: |v, r| { r.byte(0x84); r.uint(v.0 as u64); r.uint(v.1 as u64); r.int(v.2 as i128); r.byte(if v.3 { 0xf5 } else { 0xf4 }) }, eq: |a, b| a == b);
codec!(array2, q, [u16; 2], len = 7, unwind = 10, skip = crate::util::skip_unreachable, fix0: 0x82, pfx: { k1 = 1, k3 = 3, k4 = 4, k6 = 6 }, gen: kani::any(),
    refenc: |v, r| { r.byte(0x82); r.uint(v[0] as u64); r.uint(v[1] as u64) }, eq: |a, b| a[0] == b[0] && a[1] == b[1]);
codec!(array3, t, [i8; 3], len = 7, unwind = 10, skip = crate::util::skip_unreachable, fix0: 0x83, pfx: { k1 = 1, k6 = 6 }, gen: kani::any(),
    refenc: |v, r| { r.byte(0x83); r.int(v[0] as i128); r.int(v[1] as i128); r.int(v[2] as i128) },
    eq: |a, b| a[0] == b[0] && a[1] == b[1] && a[2] == b[2]);
codec!(array0, q, [u8; 0], len = 1, unwind = 10, skip = crate::util::skip_unreachable, fix0: 0x80, pfx: {  }, gen: [],
    refenc: |_v, r| { r.byte(0x80) }, eq: |_a, _b| true);
codec!(bytearray2, q, ByteArray<2>, len = 3, unwind = 10, skip = crate::util::skip_unreachable, fix0: 0x42, pfx: { k1 = 1, k2 = 2 }, gen: ByteArray::from(kani::any::<[u8; 2]>()),
    refenc: |v, r| { r.byte(0x42); r.byte(v[0]); r.byte(v[1]) }, eq: |a, b| a[0] == b[0] && a[1] == b[1]);
codec!(bytearray0, t, ByteArray<0>, len = 1, unwind = 10, skip = crate::util::skip_unreachable, fix0: 0x40, gen: ByteArray::from([]),
    refenc: |_v, r| { r.byte(0x40) }, eq: |_a, _b| true);
codec!(range_, q, Range<u8>, len = 5, unwind = 10, skip = crate::util::skip_unreachable, fix0: 0x82, pfx: { k1 = 1, k2 = 2, k3 = 3, k4 = 4 }, gen: Range { start: kani::any(), end: kani::any() },
    refenc: |v, r| { r.byte(0x82); r.uint(v.start as u64); r.uint(v.end as u64) }, eq: |a, b| a == b);
codec!(range_from, q, RangeFrom<u16>, len = 4, unwind = 10, skip = crate::util::skip_unreachable, fix0: 0x81, pfx: { k1 = 1, k3 = 3 }, gen: RangeFrom { start: kani::any() },
    refenc: |v, r| { r.byte(0x81); r.uint(v.start as u64) }, eq: |a, b| a == b);
codec!(range_to, q, RangeTo<i8>, len = 3, unwind = 10, skip = crate::util::skip_unreachable, fix0: 0x81, pfx: { k1 = 1, k2 = 2 }, gen: RangeTo { end: kani::any() },
    refenc: |v, r| { r.byte(0x81); r.int(v.end as i128) }, eq: |a, b| a == b);
codec!(range_to_incl, t, RangeToInclusive<u8>, len = 3, unwind = 10, skip = crate::util::skip_unreachable, fix0: 0x81, pfx: { k2 = 2 }, gen: RangeToInclusive { end: kani::any() },
    refenc: |v, r| { r.byte(0x81); r.uint(v.end as u64) }, eq: |a, b| a == b);
codec!(range_incl, q, RangeInclusive<u8>, len = 5, unwind = 10, skip = crate::util::skip_unreachable, fix0: 0x82, pfx: { k1 = 1, k2 = 2, k3 = 3, k4 = 4 }, gen: RangeInclusive::new(kani::any(), kani::any()),
    refenc: |v, r| { r.byte(0x82); r.uint(*v.start() as u64); r.uint(*v.end() as u64) }, eq: |a, b| a == b);
codec!(duration_, q, Duration, len = 15, unwind = 17, skip = crate::util::skip_unreachable, fix0: 0x82,
    pfx: { k1 = 1, k5 = 5, k9 = 9, k10 = 10, k12 = 12, k14 = 14 }, gen: { let s: u64 = kani::any(); let n: u32 = kani::any(); kani::assume(n < 1_000_000_000); Duration::new(s, n) },
    refenc: |v, r| { r.byte(0x82); r.uint(v.as_secs()); r.uint(v.subsec_nanos() as u64) }, eq: |a, b| a == b);

// Types whose decoder legitimately calls `Decoder::skip` (on `null` / the unit placeholder):
// `skip` is replaced by its R3 model (C06 proves skip == R3 on that domain).
codec!(option_u8, q, Option<u8>, len = 2, unwind = 10, skip = crate::util::skip_r3_small, pfx: { k1 = 1 },
    gen: kani::any(),
    refenc: |v, r| { match v { None => r.byte(0xf6), Some(x) => r.uint(*x as u64) } }, eq: |a, b| a == b);
codec!(option_i32, q, Option<i32>, len = 5, unwind = 10, skip = crate::util::skip_r3_small, pfx: { k1 = 1, k4 = 4 },
    gen: kani::any(),
    refenc: |v, r| { match v { None => r.byte(0xf6), Some(x) => r.int(*x as i128) } }, eq: |a, b| a == b);
codec!(bound_, q, Bound<u8>, len = 4, unwind = 10, skip = crate::util::skip_r3_small, fix0: 0x82, pfx: { k1 = 1, k2 = 2, k3 = 3 },
    gen: { let k: u8 = kani::any(); let x: u8 = kani::any(); if k == 0 { Bound::Included(x) } else if k == 1 { Bound::Excluded(x) } else { Bound::Unbounded } },
    refenc: |v, r| { r.byte(0x82); match v { Bound::Included(x) => { r.byte(0); r.uint(*x as u64) } Bound::Excluded(x) => { r.byte(1); r.uint(*x as u64) } Bound::Unbounded => { r.byte(2); r.byte(0x80) } } },
    eq: |a, b| a == b);
codec!(tuple_opt, q, (Option<u8>, bool), len = 4, unwind = 10, skip = crate::util::skip_r3_small, fix0: 0x82, pfx: { k1 = 1, k2 = 2, k3 = 3 },
    gen: (kani::any(), kani::any()),
    refenc: |v, r| { r.byte(0x82); match v.0 { None => r.byte(0xf6), Some(x) => r.uint(x as u64) }; r.byte(if v.1 { 0xf5 } else { 0xf4 }) },
    eq: |a, b| a == b);
