//! Shared harness helpers.
use minicbor::decode::Error;

/// `FS(N)`: N symbolic bytes and a symbolic length `<= N`.
pub fn any_buf<const N: usize>() -> ([u8; N], usize) {
    let buf: [u8; N] = kani::any();
    let len: usize = kani::any();
    kani::assume(len <= N);
    (buf, len)
}

/// Total classification of a decode error by its public predicates.
#[derive(Clone, Copy, PartialEq, Eq, Debug)]
pub enum Class { EndOfInput, TypeMismatch, TagMismatch, Message, UnknownVariant, MissingValue, Other }

pub fn class(e: &Error) -> Class {
    if e.is_end_of_input() { Class::EndOfInput }
    else if e.is_type_mismatch() { Class::TypeMismatch }
    else if e.is_tag_mismatch() { Class::TagMismatch }
    else if e.is_message() { Class::Message }
    else if e.is_unknown_variant() { Class::UnknownVariant }
    else if e.is_missing_value() { Class::MissingValue }
    else { Class::Other }
}
