//! Shared harness helpers.
use minicbor::decode::Error;

/// `FS(N)`: N symbolic bytes and a symbolic length `<= N`.
pub fn any_buf<const N: usize>() -> ([u8; N], usize) {
    let buf: [u8; N] = kani::any();
    let len: usize = kani::any();
    kani::assume(len <= N);
    (buf, len)
}

/// Total classification of a decode error by its public predicates.
#[derive(Clone, Copy, PartialEq, Eq, Debug)]
pub enum Class { EndOfInput, TypeMismatch, TagMismatch, Message, UnknownVariant, MissingValue, Other }

pub fn class(e: &Error) -> Class {
    if e.is_end_of_input() { Class::EndOfInput }
    else if e.is_type_mismatch() { Class::TypeMismatch }
    else if e.is_tag_mismatch() { Class::TagMismatch }
    else if e.is_message() { Class::Message }
    else if e.is_unknown_variant() { Class::UnknownVariant }
    else if e.is_missing_value() { Class::MissingValue }
    else { Class::Other }
}

/// Capacity of reference / output buffers of the codec harnesses.
pub const CAP: usize = 32;

/// Reference encoding buffer (filled by the oracle side of a harness).
pub struct RefBuf { pub b: [u8; CAP], pub n: usize }

impl RefBuf {
    pub fn new() -> Self { RefBuf { b: [0; CAP], n: 0 } }
    pub fn byte(&mut self, x: u8) { self.b[self.n] = x; self.n += 1; }
    /// preferred head (R2)
    pub fn head(&mut self, major: u8, arg: u64) {
        let (h, w) = vref::put_head(major, arg);
        let mut i = 0;
        while i < 9 { if i < w { self.b[self.n + i] = h[i]; } i += 1; }
        self.n += w;
    }
    pub fn uint(&mut self, v: u64) { self.head(0, v) }
    /// CBOR integer from a mathematical value in [-2^64, 2^64-1]
    pub fn int(&mut self, v: i128) {
        if v >= 0 { self.head(0, v as u64) } else { self.head(1, (-1 - v) as u64) }
    }
    pub fn raw(&mut self, x: &[u8]) {
        let mut i = 0;
        while i < x.len() { self.b[self.n + i] = x[i]; i += 1; }
        self.n += x.len();
    }
    pub fn be32(&mut self, x: u32) { self.raw(&x.to_be_bytes()) }
    pub fn be64(&mut self, x: u64) { self.raw(&x.to_be_bytes()) }
}

/// Loop-free equality of two CAP-byte buffers.
pub fn eq_cap(a: &[u8; CAP], b: &[u8; CAP]) -> bool {
    let a0 = u128::from_le_bytes(a[0..16].try_into().unwrap());
    let a1 = u128::from_le_bytes(a[16..32].try_into().unwrap());
    let b0 = u128::from_le_bytes(b[0..16].try_into().unwrap());
    let b1 = u128::from_le_bytes(b[16..32].try_into().unwrap());
    a0 == b0 && a1 == b1
}

/// Encode `v` into a zeroed CAP-byte array cursor; returns (bytes, position, ok?).
pub fn enc_cap<T: minicbor::Encode<()>>(v: &T) -> ([u8; CAP], usize, bool) {
    let mut e = minicbor::Encoder::new(minicbor::encode::write::Cursor::new([0u8; CAP]));
    let ok = e.encode(v).is_ok();
    let c = e.into_writer();
    let p = c.position();
    (c.into_inner(), p, ok)
}

/// Stub for `Decoder::skip` in harnesses whose inputs never make the code under test skip an
/// item: reaching it is reported (assertion), never silently pruned.
pub fn skip_unreachable<'b: 'b>(_d: &mut minicbor::Decoder<'b>) -> Result<(), Error> {
    assert!(false, "model domain: Decoder::skip reached in a harness that stubs it as unreachable");
    kani::assume(false);
    loop {}
}

/// R3 model of `Decoder::skip` (C06 is what proves skip == R3 on its domain): at most 6 heads,
/// nesting depth 3.  Leaving that domain is an assertion failure, not a pruned path.
pub fn skip_r3_small<'b: 'b>(d: &mut minicbor::Decoder<'b>) -> Result<(), Error> {
    // minicbor-derive uses skip() to consume the break byte of an indefinite container: on a lone
    // break the real skip() consumes it and returns Ok (not an item; R3 does not cover it)
    {
        let (inp, p) = (d.input(), d.position());
        if p < inp.len() && inp[p] == 0xff { d.set_position(p + 1); return Ok(()) }
    }
    match vref::wellformed::<3>(d.input(), d.position(), 6) {
        vref::Wf::Ok { end, .. } => { d.set_position(end); Ok(()) }
        vref::Wf::Trunc => Err(Error::end_of_input()),
        vref::Wf::Bad => Err(Error::message("ill-formed item")),
        vref::Wf::Bound => {
            assert!(false, "model domain: skip model bound exceeded");
            kani::assume(false);
            loop {}
        }
    }
}

/// Over-approximation of `core::str::from_utf8` for harnesses whose subject is not UTF-8
/// validation (which is checked unstubbed in `c04_str_definite_utf8`): either verdict.
pub fn from_utf8_overapprox(v: &[u8]) -> Result<&str, core::str::Utf8Error> {
    if v.is_empty() || kani::any() {
        Ok(unsafe { core::str::from_utf8_unchecked(v) })
    } else {
        let mut bad = [0xffu8];
        match core::str::from_utf8_mut(&mut bad) { Err(e) => Err(e), Ok(_) => loop {} }
    }
}

/// `core::str::from_utf8` model for harnesses that are about item *boundaries*: always valid.
pub fn from_utf8_ok(v: &[u8]) -> Result<&str, core::str::Utf8Error> {
    Ok(unsafe { core::str::from_utf8_unchecked(v) })
}

/// Kani 0.68 ICEs on `encode::Error::<Infallible>::write` (set_discriminant on a variant with an
/// uninhabited payload).  For sinks whose error type is `Infallible` the function can never be
/// called: the stub asserts that and diverges.
pub fn encode_error_write_unreachable<E>(_e: E) -> minicbor::encode::Error<E> {
    assert!(false, "encode::Error::write reached for an infallible sink");
    kani::assume(false);
    loop {}
}
