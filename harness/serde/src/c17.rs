//! C17 — the serde bridge: documented representation (Serializer) and method pairing (Deserializer).
use crate::util::*;
use core::fmt;
use minicbor::encode::write::Cursor;
use minicbor_serde::{Deserializer, Serializer};
use serde::de::{self, DeserializeSeed, EnumAccess, MapAccess, SeqAccess, VariantAccess, Visitor};
use serde::ser::{SerializeMap, SerializeSeq, SerializeStruct, SerializeStructVariant, SerializeTuple, SerializeTupleStruct, SerializeTupleVariant};
use serde::{Deserialize, Serialize};
use serde::Serializer as _;
use serde::Deserializer as _;
use vref::*;

type S = Serializer<Cursor<[u8; CAP]>>;

fn ser(f: impl FnOnce(&mut S) -> bool) -> ([u8; CAP], usize) {
    let mut s = Serializer::new(Cursor::new([0u8; CAP]));
    let ok = f(&mut s);
    assert!(ok, "serializer method failed on a large enough buffer");
    let c = s.into_encoder().into_writer();
    let p = c.position();
    (c.into_inner(), p)
}

fn expect(out: &([u8; CAP], usize), r: &RefBuf) {
    assert!(out.1 == r.n, "length differs from the documented representation");
    assert!(eq_cap(&out.0, &r.b), "bytes differ from the documented representation");
}

// ---- (a) primitives ------------------------------------------------------------------------
macro_rules! ser_int {
    ($name:ident, $t:ty, $m:ident) => {
        #[kani::proof]
        #[kani::unwind(10)]
        pub fn $name() {
            let x: $t = kani::any();
            let out = ser(|s| s.$m(x).is_ok());
            let mut r = RefBuf::new();
            r.int(x as i128);
            expect(&out, &r);
        }
    };
}
ser_int!(c17_ser_u8, u8, serialize_u8);
ser_int!(c17_ser_u16, u16, serialize_u16);
ser_int!(c17_ser_u32, u32, serialize_u32);
ser_int!(c17_ser_u64, u64, serialize_u64);
ser_int!(c17_ser_i8, i8, serialize_i8);
ser_int!(c17_ser_i16, i16, serialize_i16);
ser_int!(c17_ser_i32, i32, serialize_i32);
ser_int!(c17_ser_i64, i64, serialize_i64);

#[kani::proof]
#[kani::unwind(10)]
pub fn c17_ser_misc_primitives() {
    let b: bool = kani::any();
    let o = ser(|s| s.serialize_bool(b).is_ok());
    assert!(o.1 == 1 && o.0[0] == if b { 0xf5 } else { 0xf4 });
    let c: char = kani::any();
    let o = ser(|s| s.serialize_char(c).is_ok());
    let mut r = RefBuf::new(); r.uint(c as u32 as u64); expect(&o, &r);
    let x: u32 = kani::any();
    let o = ser(|s| s.serialize_f32(f32::from_bits(x)).is_ok());
    let mut r = RefBuf::new(); r.byte(0xfa); r.be32(x); expect(&o, &r);
    let y: u64 = kani::any();
    let o = ser(|s| s.serialize_f64(f64::from_bits(y)).is_ok());
    let mut r = RefBuf::new(); r.byte(0xfb); r.be64(y); expect(&o, &r);
    // None is null, unit and unit structs are the empty array
    let o = ser(|s| s.serialize_none().is_ok());
    assert!(o.1 == 1 && o.0[0] == 0xf6);
    let o = ser(|s| s.serialize_unit().is_ok());
    assert!(o.1 == 1 && o.0[0] == 0x80);
    let o = ser(|s| s.serialize_unit_struct("Unit").is_ok());
    assert!(o.1 == 1 && o.0[0] == 0x80);
}

#[kani::proof]
#[kani::unwind(10)]
pub fn c17_ser_str_bytes() {
    let p: [u8; 4] = kani::any();
    let n: usize = kani::any();
    kani::assume(n <= 4);
    let o = ser(|s| s.serialize_bytes(&p[..n]).is_ok());
    let mut r = RefBuf::new(); r.head(2, n as u64); r.raw(&p[..n]); expect(&o, &r);
    kani::assume(utf8_valid4(&p, n));
    let t = unsafe { core::str::from_utf8_unchecked(&p[..n]) };
    let o = ser(|s| s.serialize_str(t).is_ok());
    let mut r = RefBuf::new(); r.head(3, n as u64); r.raw(&p[..n]); expect(&o, &r);
}

// ---- (a') composite shapes: the documented representation -----------------------------------
/// Some(x) is x; newtype struct is its content; unit variant is the variant name as text;
/// newtype / tuple / struct variants are a one-entry map from the name to the content.
#[kani::proof]
#[kani::unwind(10)]
pub fn c17_ser_option_newtype_variants() {
    let x: u16 = kani::any();
    let o = ser(|s| s.serialize_some(&x).is_ok());
    let mut r = RefBuf::new(); r.uint(x as u64); expect(&o, &r);
    let o = ser(|s| s.serialize_newtype_struct("N", &x).is_ok());
    expect(&o, &r);
    let o = ser(|s| s.serialize_unit_variant("E", 3, "Ab").is_ok());
    let mut r = RefBuf::new(); r.byte(0x62); r.byte(b'A'); r.byte(b'b'); expect(&o, &r);
    let o = ser(|s| s.serialize_newtype_variant("E", 1, "B", &x).is_ok());
    let mut r = RefBuf::new(); r.byte(0xa1); r.byte(0x61); r.byte(b'B'); r.uint(x as u64); expect(&o, &r);
}

#[kani::proof]
#[kani::unwind(10)]
pub fn c17_ser_seq_tuple_shapes() {
    let a: u8 = kani::any();
    let b: bool = kani::any();
    let bb = if b { 0xf5 } else { 0xf4 };
    // sequence of known length: definite array
    let o = ser(|s| { let mut q = match s.serialize_seq(Some(2)) { Ok(q) => q, Err(_) => return false };
        SerializeSeq::serialize_element(&mut q, &a).is_ok() && SerializeSeq::serialize_element(&mut q, &b).is_ok() && SerializeSeq::end(q).is_ok() });
    let mut r = RefBuf::new(); r.byte(0x82); r.uint(a as u64); r.byte(bb); expect(&o, &r);
    // unknown length: indefinite array closed by a break
    let o = ser(|s| { let mut q = match s.serialize_seq(None) { Ok(q) => q, Err(_) => return false };
        SerializeSeq::serialize_element(&mut q, &a).is_ok() && SerializeSeq::end(q).is_ok() });
    let mut r = RefBuf::new(); r.byte(0x9f); r.uint(a as u64); r.byte(0xff); expect(&o, &r);
    // tuple / tuple struct
    let o = ser(|s| { let mut q = match s.serialize_tuple(2) { Ok(q) => q, Err(_) => return false };
        SerializeTuple::serialize_element(&mut q, &a).is_ok() && SerializeTuple::serialize_element(&mut q, &b).is_ok() && SerializeTuple::end(q).is_ok() });
    let mut r = RefBuf::new(); r.byte(0x82); r.uint(a as u64); r.byte(bb); expect(&o, &r);
    let o = ser(|s| { let mut q = match s.serialize_tuple_struct("T", 1) { Ok(q) => q, Err(_) => return false };
        SerializeTupleStruct::serialize_field(&mut q, &a).is_ok() && SerializeTupleStruct::end(q).is_ok() });
    let mut r = RefBuf::new(); r.byte(0x81); r.uint(a as u64); expect(&o, &r);
    // tuple variant: {"C": [a, b]}
    let o = ser(|s| { let mut q = match s.serialize_tuple_variant("E", 2, "C", 2) { Ok(q) => q, Err(_) => return false };
        SerializeTupleVariant::serialize_field(&mut q, &a).is_ok() && SerializeTupleVariant::serialize_field(&mut q, &b).is_ok() && SerializeTupleVariant::end(q).is_ok() });
    let mut r = RefBuf::new(); r.byte(0xa1); r.byte(0x61); r.byte(b'C'); r.byte(0x82); r.uint(a as u64); r.byte(bb); expect(&o, &r);
}

#[kani::proof]
#[kani::unwind(10)]
pub fn c17_ser_map_struct_shapes() {
    let k: u8 = kani::any();
    let v: i8 = kani::any();
    // map of known length / unknown length
    let o = ser(|s| { let mut q = match s.serialize_map(Some(1)) { Ok(q) => q, Err(_) => return false };
        SerializeMap::serialize_key(&mut q, &k).is_ok() && SerializeMap::serialize_value(&mut q, &v).is_ok() && SerializeMap::end(q).is_ok() });
    let mut r = RefBuf::new(); r.byte(0xa1); r.uint(k as u64); r.int(v as i128); expect(&o, &r);
    let o = ser(|s| { let mut q = match s.serialize_map(None) { Ok(q) => q, Err(_) => return false };
        SerializeMap::serialize_key(&mut q, &k).is_ok() && SerializeMap::serialize_value(&mut q, &v).is_ok() && SerializeMap::end(q).is_ok() });
    let mut r = RefBuf::new(); r.byte(0xbf); r.uint(k as u64); r.int(v as i128); r.byte(0xff); expect(&o, &r);
    // struct: map keyed by field name
    let o = ser(|s| { let mut q = match s.serialize_struct("S", 2) { Ok(q) => q, Err(_) => return false };
        SerializeStruct::serialize_field(&mut q, "a", &k).is_ok() && SerializeStruct::serialize_field(&mut q, "bc", &v).is_ok() && SerializeStruct::end(q).is_ok() });
    let mut r = RefBuf::new(); r.byte(0xa2); r.byte(0x61); r.byte(b'a'); r.uint(k as u64); r.byte(0x62); r.byte(b'b'); r.byte(b'c'); r.int(v as i128); expect(&o, &r);
    // struct variant: {"D": {"x": k}}
    let o = ser(|s| { let mut q = match s.serialize_struct_variant("E", 3, "D", 1) { Ok(q) => q, Err(_) => return false };
        SerializeStructVariant::serialize_field(&mut q, "x", &k).is_ok() && SerializeStructVariant::end(q).is_ok() });
    let mut r = RefBuf::new(); r.byte(0xa1); r.byte(0x61); r.byte(b'D'); r.byte(0xa1); r.byte(0x61); r.byte(b'x'); r.uint(k as u64); expect(&o, &r);
    // every output above is one well-formed item (R3)
    match wellformed::<4>(&o.0[..12], 0, 8) { Wf::Ok { end, .. } => assert!(end == o.1), _ => assert!(false, "not one well-formed item") }
}

// ---- (b) Deserializer methods with minimal hand-written visitors ---------------------------
/// A visitor that accepts exactly one `visit_*` method and returns the value widened to i128.
pub struct IntV(pub u8);
macro_rules! intv_methods { ($($m:ident $t:ty => $k:expr),*) => { $(
    fn $m<E: de::Error>(self, v: $t) -> Result<Self::Value, E> { if self.0 == $k { Ok(v as i128) } else { Err(E::custom("wrong visit method")) } } )* } }
impl<'de> Visitor<'de> for IntV {
    type Value = i128;
    fn expecting(&self, f: &mut fmt::Formatter) -> fmt::Result { f.write_str("int") }
    intv_methods!(visit_u8 u8 => 0, visit_u16 u16 => 1, visit_u32 u32 => 2, visit_u64 u64 => 3,
                  visit_i8 i8 => 4, visit_i16 i16 => 5, visit_i32 i32 => 6, visit_i64 i64 => 7);
}

macro_rules! de_int {
    ($name:ident, $m:ident, $k:expr, $t:ty) => {
        #[kani::proof]
        pub fn $name() {
            let (buf, len) = any_buf::<9>();
            let mut d = Deserializer::new(&buf[..len]);
            let r = (&mut d).$m(IntV($k));
            let item = match read_head(&buf[..len], 0) {
                HeadR::Ok(h) if h.major <= 1 && h.ai != 31 => Some((int_value(h.major, h.arg), h.width)),
                _ => None };
            match item {
                Some((v, w)) => {
                    let fits = v >= <$t>::MIN as i128 && v <= <$t>::MAX as i128;
                    match r {
                        Ok(x) => { assert!(fits && x == v, "deserialize method delivered a different value"); assert!(d.decoder().position() == w) }
                        Err(_) => assert!(!fits, "representable value rejected"),
                    }
                }
                None => assert!(r.is_err()),
            }
            kani::cover!(true);
        }
    };
}
de_int!(c17_de_u8, deserialize_u8, 0, u8);
de_int!(c17_de_u16, deserialize_u16, 1, u16);
de_int!(c17_de_u32, deserialize_u32, 2, u32);
de_int!(c17_de_u64, deserialize_u64, 3, u64);
de_int!(c17_de_i8, deserialize_i8, 4, i8);
de_int!(c17_de_i16, deserialize_i16, 5, i16);
de_int!(c17_de_i32, deserialize_i32, 6, i32);
de_int!(c17_de_i64, deserialize_i64, 7, i64);

/// Visitor for bool / unit / option / str / bytes shapes.
#[derive(Clone, Copy, PartialEq, Eq, Debug)]
pub enum Shape<'a> { Bool(bool), Unit, None, SomeU8(u8), Str(&'a str), Bytes(&'a [u8]), F32(u32), F64(u64), Char(char) }
pub struct ShapeV;
impl<'de> Visitor<'de> for ShapeV {
    type Value = Shape<'de>;
    fn expecting(&self, f: &mut fmt::Formatter) -> fmt::Result { f.write_str("shape") }
    fn visit_bool<E: de::Error>(self, v: bool) -> Result<Self::Value, E> { Ok(Shape::Bool(v)) }
    fn visit_unit<E: de::Error>(self) -> Result<Self::Value, E> { Ok(Shape::Unit) }
    fn visit_none<E: de::Error>(self) -> Result<Self::Value, E> { Ok(Shape::None) }
    fn visit_some<D: de::Deserializer<'de>>(self, d: D) -> Result<Self::Value, D::Error> { d.deserialize_u8(IntV(0)).map(|v| Shape::SomeU8(v as u8)) }
    fn visit_borrowed_str<E: de::Error>(self, v: &'de str) -> Result<Self::Value, E> { Ok(Shape::Str(v)) }
    fn visit_borrowed_bytes<E: de::Error>(self, v: &'de [u8]) -> Result<Self::Value, E> { Ok(Shape::Bytes(v)) }
    fn visit_f32<E: de::Error>(self, v: f32) -> Result<Self::Value, E> { Ok(Shape::F32(v.to_bits())) }
    fn visit_f64<E: de::Error>(self, v: f64) -> Result<Self::Value, E> { Ok(Shape::F64(v.to_bits())) }
    fn visit_char<E: de::Error>(self, v: char) -> Result<Self::Value, E> { Ok(Shape::Char(v)) }
}

#[kani::proof]
#[kani::unwind(6)]
#[kani::stub(minicbor::decode::Decoder::skip, crate::util::skip_r3_small)]
pub fn c17_de_bool_unit_option() {
    let b: [u8; 3] = kani::any();
    // bool
    let mut d = Deserializer::new(&b[..1]);
    let r = (&mut d).deserialize_bool(ShapeV);
    match b[0] { 0xf4 => assert!(matches!(r, Ok(Shape::Bool(false)))), 0xf5 => assert!(matches!(r, Ok(Shape::Bool(true)))), _ => assert!(r.is_err()) }
    // unit is the empty array
    let mut d = Deserializer::new(&b[..1]);
    let r = (&mut d).deserialize_unit(ShapeV);
    if b[0] == 0x80 { assert!(matches!(r, Ok(Shape::Unit)) && d.decoder().position() == 1) } else { assert!(r.is_err()) }
    // option: null is None, anything else is Some(content)
    let inp = [b[0], b[1]];
    let mut d = Deserializer::new(&inp[..]);
    let r = (&mut d).deserialize_option(ShapeV);
    if b[0] == 0xf6 { assert!(matches!(r, Ok(Shape::None)) && d.decoder().position() == 1) }
    else if b[0] <= 0x17 { assert!(matches!(r, Ok(Shape::SomeU8(x)) if x == b[0]) && d.decoder().position() == 1) }
    else if b[0] == 0x18 { assert!(matches!(r, Ok(Shape::SomeU8(x)) if x == b[1]) && d.decoder().position() == 2) }
    kani::cover!(b[0] == 0xf6);
}

#[kani::proof]
#[kani::unwind(6)]
#[kani::stub(core::str::from_utf8, crate::util::from_utf8_overapprox)]
pub fn c17_de_str_bytes_borrowed() {
    let p: [u8; 3] = kani::any();
    let n: u8 = kani::any();
    kani::assume(n <= 3);
    let inp = [0x40 | n, p[0], p[1], p[2]];
    let mut d = Deserializer::new(&inp[..]);
    let r = (&mut d).deserialize_bytes(ShapeV);
    match r { Ok(Shape::Bytes(x)) => { assert!(x.len() == n as usize && x.as_ptr() == unsafe { inp.as_ptr().add(1) }); assert!(d.decoder().position() == 1 + n as usize) }
              _ => assert!(false, "definite byte string rejected") }
    let inp2 = [0x60 | n, p[0], p[1], p[2]];
    let mut d = Deserializer::new(&inp2[..]);
    let r = (&mut d).deserialize_str(ShapeV);
    if let Ok(Shape::Str(x)) = r { assert!(x.len() == n as usize && x.as_ptr() == unsafe { inp2.as_ptr().add(1) }); assert!(d.decoder().position() == 1 + n as usize) }
    // a byte string is not text and vice versa
    let mut d = Deserializer::new(&inp[..]);
    assert!((&mut d).deserialize_str(ShapeV).is_err());
    let mut d = Deserializer::new(&inp2[..]);
    assert!((&mut d).deserialize_bytes(ShapeV).is_err());
}

/// Sequence visitor collecting up to 3 u8 elements and counting them.
pub struct SeqV;
impl<'de> Visitor<'de> for SeqV {
    type Value = ([u8; 3], usize);
    fn expecting(&self, f: &mut fmt::Formatter) -> fmt::Result { f.write_str("seq") }
    fn visit_seq<A: SeqAccess<'de>>(self, mut a: A) -> Result<Self::Value, A::Error> {
        let mut out = [0u8; 3];
        let mut n = 0;
        let mut i = 0;
        while i < 4 {
            match a.next_element_seed(U8Seed)? { Some(x) => { if n < 3 { out[n] = x; } n += 1 } None => return Ok((out, n)) }
            i += 1;
        }
        Err(de::Error::custom("too many elements"))
    }
}
pub struct U8Seed;
impl<'de> DeserializeSeed<'de> for U8Seed {
    type Value = u8;
    fn deserialize<D: de::Deserializer<'de>>(self, d: D) -> Result<u8, D::Error> { d.deserialize_u8(IntV(0)).map(|v| v as u8) }
}

/// deserialize_seq on definite and indefinite arrays of 0..=2 elements (type-directed skeleton,
/// symbolic element bytes): elements in order, count-down / break handling, exact position.
macro_rules! de_seq {
    ($name:ident, [$($b:expr),*], len = $l:expr, elems = [$($e:expr),*]) => {
        #[kani::proof]
        #[kani::unwind(6)]
        pub fn $name() {
            let a: [u8; 2] = kani::any();
            let sfx: u8 = kani::any();
            let inp = [$($b(a)),*, sfx];
            let mut d = Deserializer::new(&inp[..]);
            let r = (&mut d).deserialize_seq(SeqV);
            assert!(r.is_ok(), "well-formed sequence rejected");
            let (out, n) = r.unwrap();
            let want: &[u8] = &[$($e(a)),*];
            assert!(n == want.len());
            let mut i = 0;
            while i < 3 { if i < n { assert!(out[i] == want[i], "element differs"); } i += 1; }
            assert!(d.decoder().position() == $l, "sequence did not consume exactly the array");
        }
    };
}
fn k<const B: u8>(_a: [u8; 2]) -> u8 { B }
fn a0(a: [u8; 2]) -> u8 { a[0] }
fn a1(a: [u8; 2]) -> u8 { a[1] }
de_seq!(c17_de_seq_def2, [k::<0x82>, k::<0x18>, a0, k::<0x18>, a1], len = 5, elems = [a0, a1]);
de_seq!(c17_de_seq_indef2, [k::<0x9f>, k::<0x18>, a0, k::<0x18>, a1, k::<0xff>], len = 6, elems = [a0, a1]);
de_seq!(c17_de_seq_def0, [k::<0x80>], len = 1, elems = []);
de_seq!(c17_de_seq_indef0, [k::<0x9f>, k::<0xff>], len = 2, elems = []);
de_seq!(c17_de_seq_def1_wide, [k::<0x98>, k::<0x01>, k::<0x18>, a0], len = 4, elems = [a0]);

/// deserialize_tuple insists on the exact definite length.
#[kani::proof]
#[kani::unwind(6)]
pub fn c17_de_tuple_len() {
    let a: [u8; 2] = kani::any();
    let hdr: u8 = kani::any();
    kani::assume((hdr >= 0x80 && hdr <= 0x83) || hdr == 0x9f);
    let inp = [hdr, 0x18, a[0], 0x18, a[1], 0xff];
    let mut d = Deserializer::new(&inp[..]);
    let r = (&mut d).deserialize_tuple(2, SeqV);
    if hdr == 0x82 { assert!(matches!(r, Ok((o, 2)) if o[0] == a[0] && o[1] == a[1]) && d.decoder().position() == 5) }
    else { assert!(r.is_err(), "tuple of the wrong or unknown length accepted") }
}

/// Map visitor: up to 2 (u8 key, u8 value) entries.
pub struct MapV;
impl<'de> Visitor<'de> for MapV {
    type Value = ([(u8, u8); 2], usize);
    fn expecting(&self, f: &mut fmt::Formatter) -> fmt::Result { f.write_str("map") }
    fn visit_map<A: MapAccess<'de>>(self, mut a: A) -> Result<Self::Value, A::Error> {
        let mut out = [(0u8, 0u8); 2];
        let mut n = 0;
        let mut i = 0;
        while i < 3 {
            match a.next_key_seed(U8Seed)? { Some(key) => { let v = a.next_value_seed(U8Seed)?; if n < 2 { out[n] = (key, v); } n += 1 } None => return Ok((out, n)) }
            i += 1;
        }
        Err(de::Error::custom("too many entries"))
    }
}

macro_rules! de_map {
    ($name:ident, [$($b:expr),*], len = $l:expr, n = $n:expr) => {
        #[kani::proof]
        #[kani::unwind(6)]
        pub fn $name() {
            let a: [u8; 2] = kani::any();
            let sfx: u8 = kani::any();
            let inp = [$($b(a)),*, sfx];
            let mut d = Deserializer::new(&inp[..]);
            let r = (&mut d).deserialize_map(MapV);
            assert!(r.is_ok(), "well-formed map rejected");
            let (out, n) = r.unwrap();
            assert!(n == $n);
            if $n >= 1 { assert!(out[0] == (a[0], a[1]), "entry differs") }
            assert!(d.decoder().position() == $l, "map did not consume exactly the item");
        }
    };
}
de_map!(c17_de_map_def1, [k::<0xa1>, k::<0x18>, a0, k::<0x18>, a1], len = 5, n = 1);
de_map!(c17_de_map_indef1, [k::<0xbf>, k::<0x18>, a0, k::<0x18>, a1, k::<0xff>], len = 6, n = 1);
de_map!(c17_de_map_def0, [k::<0xa0>], len = 1, n = 0);
de_map!(c17_de_map_indef0, [k::<0xbf>, k::<0xff>], len = 2, n = 0);

/// Enum visitor: variants "A" (unit), "B"(u8) (newtype), "C"(u8,u8) (tuple), "D"{x:u8} (struct).
#[derive(Debug, PartialEq, Eq, Clone, Copy)]
pub enum EV { A, B(u8), C(u8, u8), D(u8) }
pub struct NameSeed;
impl<'de> DeserializeSeed<'de> for NameSeed {
    type Value = u8;
    fn deserialize<D: de::Deserializer<'de>>(self, d: D) -> Result<u8, D::Error> {
        struct V;
        impl<'de> Visitor<'de> for V {
            type Value = u8;
            fn expecting(&self, f: &mut fmt::Formatter) -> fmt::Result { f.write_str("name") }
            fn visit_borrowed_str<E: de::Error>(self, s: &'de str) -> Result<u8, E> {
                let b = s.as_bytes();
                if b.len() == 1 { Ok(b[0]) } else { Err(E::custom("unknown variant")) }
            }
        }
        d.deserialize_identifier(V)
    }
}
/// Struct-variant visitor: a map with the single text key "x" and a u8 value.
pub struct FieldMapV;
impl<'de> Visitor<'de> for FieldMapV {
    type Value = u8;
    fn expecting(&self, f: &mut fmt::Formatter) -> fmt::Result { f.write_str("struct variant") }
    fn visit_map<A: MapAccess<'de>>(self, mut a: A) -> Result<u8, A::Error> {
        match a.next_key_seed(NameSeed)? {
            Some(b'x') => {
                let v = a.next_value_seed(U8Seed)?;
                match a.next_key_seed(NameSeed)? { None => Ok(v), Some(_) => Err(de::Error::custom("extra field")) }
            }
            _ => Err(de::Error::custom("missing field x")),
        }
    }
}
pub struct EnumV;
impl<'de> Visitor<'de> for EnumV {
    type Value = EV;
    fn expecting(&self, f: &mut fmt::Formatter) -> fmt::Result { f.write_str("enum") }
    fn visit_enum<A: EnumAccess<'de>>(self, a: A) -> Result<EV, A::Error> {
        let (name, va) = a.variant_seed(NameSeed)?;
        match name {
            b'A' => { va.unit_variant()?; Ok(EV::A) }
            b'B' => va.newtype_variant_seed(U8Seed).map(EV::B),
            b'C' => va.tuple_variant(2, SeqV).map(|(o, _)| EV::C(o[0], o[1])),
            b'D' => va.struct_variant(&["x"], FieldMapV).map(EV::D),
            _ => Err(de::Error::custom("unknown variant")),
        }
    }
}

macro_rules! de_enum {
    ($name:ident, [$($b:expr),*], len = $l:expr, |$a:ident| $want:expr) => {
        #[kani::proof]
        #[kani::unwind(6)]
        #[kani::stub(core::str::from_utf8, crate::util::from_utf8_ok)]
        pub fn $name() {
            let $a: [u8; 2] = kani::any();
            let sfx: u8 = kani::any();
            let inp = [$($b($a)),*, sfx];
            let mut d = Deserializer::new(&inp[..]);
            let r = (&mut d).deserialize_enum("E", &["A", "B", "C", "D"], EnumV);
            assert!(r.is_ok(), "documented enum representation rejected");
            assert!(r.unwrap() == $want, "variant content differs");
            assert!(d.decoder().position() == $l, "enum did not consume exactly the item");
        }
    };
}
de_enum!(c17_de_enum_unit, [k::<0x61>, k::<b'A'>], len = 2, |a| EV::A);
de_enum!(c17_de_enum_newtype, [k::<0xa1>, k::<0x61>, k::<b'B'>, k::<0x18>, a0], len = 5, |a| EV::B(a[0]));
de_enum!(c17_de_enum_tuple, [k::<0xa1>, k::<0x61>, k::<b'C'>, k::<0x82>, k::<0x18>, a0, k::<0x18>, a1], len = 8, |a| EV::C(a[0], a[1]));
de_enum!(c17_de_enum_struct, [k::<0xa1>, k::<0x61>, k::<b'D'>, k::<0xa1>, k::<0x61>, k::<b'x'>, k::<0x18>, a0], len = 8, |a| EV::D(a[0]));

/// A map of another size than one is not an enum.
fn enum_map_len<const H: u8>() {
    let inp = [H, 0x61, b'B', 0x05, 0x61, b'B', 0x05, 0xff];
    let mut d = Deserializer::new(&inp[..]);
    let r = (&mut d).deserialize_enum("E", &["A", "B", "C", "D"], EnumV);
    assert!(r.is_err(), "enum accepted from a map that does not have exactly one entry");
}
macro_rules! enum_len_h { ($($name:ident $h:expr),*) => { $(
    #[kani::proof]
    #[kani::unwind(6)]
    #[kani::stub(core::str::from_utf8, crate::util::from_utf8_ok)]
    pub fn $name() { enum_map_len::<$h>() } )* } }
enum_len_h!(c17_de_enum_map_len0 0xa0, c17_de_enum_map_len2 0xa2);

/// deserialize_any dispatches on the item's type: one harness per concrete initial byte.
pub fn any_dispatch<const B: u8>() {
    let a: [u8; 4] = kani::any();
    let inp = [B, a[0], a[1], a[2], a[3], 0xff];
    let mut d = Deserializer::new(&inp[..]);
    let major = B >> 5;
    let ai = B & 0x1f;
    if major <= 1 {
        // integers: delivered through the visit method of datatype()'s width, value preserved
        struct AnyInt;
        impl<'de> Visitor<'de> for AnyInt {
            type Value = i128;
            fn expecting(&self, f: &mut fmt::Formatter) -> fmt::Result { f.write_str("any int") }
            fn visit_u8<E: de::Error>(self, v: u8) -> Result<i128, E> { Ok(v as i128) }
            fn visit_u16<E: de::Error>(self, v: u16) -> Result<i128, E> { Ok(v as i128) }
            fn visit_u32<E: de::Error>(self, v: u32) -> Result<i128, E> { Ok(v as i128) }
            fn visit_u64<E: de::Error>(self, v: u64) -> Result<i128, E> { Ok(v as i128) }
            fn visit_i8<E: de::Error>(self, v: i8) -> Result<i128, E> { Ok(v as i128) }
            fn visit_i16<E: de::Error>(self, v: i16) -> Result<i128, E> { Ok(v as i128) }
            fn visit_i32<E: de::Error>(self, v: i32) -> Result<i128, E> { Ok(v as i128) }
            fn visit_i64<E: de::Error>(self, v: i64) -> Result<i128, E> { Ok(v as i128) }
        }
        let r = (&mut d).deserialize_any(AnyInt);
        if let HeadR::Ok(h) = read_head(&inp[..], 0) {
            if let Ok(x) = r { assert!(x == int_value(h.major, h.arg) && d.decoder().position() == h.width) }
            else { assert!(false, "deserialize_any rejected an integer that fits 64 bits") }
        }
    } else {
        let r = (&mut d).deserialize_any(ShapeV);
        match B {
            0xf4 => assert!(matches!(r, Ok(Shape::Bool(false)))),
            0xf5 => assert!(matches!(r, Ok(Shape::Bool(true)))),
            0xf6 => assert!(matches!(r, Ok(Shape::None)) && d.decoder().position() == 1),
            0xfa => assert!(matches!(r, Ok(Shape::F32(x)) if x == u32::from_be_bytes(a)) && d.decoder().position() == 5),
            0x42 => assert!(matches!(r, Ok(Shape::Bytes(x)) if x.len() == 2 && x[0] == a[0] && x[1] == a[1]) && d.decoder().position() == 3),
            // text arrives BORROWED from the input (visit_borrowed_str): zero-copy &str fields behind
            // flatten / untagged / internally tagged representations depend on it
            0x62 => { if let Ok(Shape::Str(x)) = r { assert!(x.len() == 2 && x.as_ptr() == unsafe { inp.as_ptr().add(1) } && d.decoder().position() == 3) }
                      else { assert!(false, "text item not delivered as a borrowed str by deserialize_any") } }
            0xf7 | 0xc1 | 0xe0 | 0xff | 0x1c => assert!(r.is_err(), "undefined / tag / simple / break / reserved accepted by deserialize_any"),
            _ => {}
        }
        let _ = ai;
    }
    kani::cover!(true);
}
macro_rules! any_h { ($($name:ident $b:expr),*) => { $(
    #[kani::proof]
    #[kani::unwind(6)]
    #[kani::stub(minicbor::decode::Decoder::skip, crate::util::skip_r3_small)]
    pub fn $name() { any_dispatch::<$b>() } )* } }
#[kani::proof]
#[kani::unwind(6)]
#[kani::stub(minicbor::decode::Decoder::skip, crate::util::skip_r3_small)]
#[kani::stub(core::str::from_utf8, crate::util::from_utf8_ok)]
pub fn c17_any_62() { any_dispatch::<0x62>() }
any_h!(c17_any_05 0x05, c17_any_18 0x18, c17_any_19 0x19, c17_any_1a 0x1a, c17_any_20 0x20, c17_any_38 0x38, c17_any_39 0x39,
       c17_any_f4 0xf4, c17_any_f5 0xf5, c17_any_f6 0xf6, c17_any_f7 0xf7, c17_any_fa 0xfa, c17_any_42 0x42, c17_any_c1 0xc1, c17_any_e0 0xe0, c17_any_ff 0xff);

/// deserialize_ignored_any skips exactly one item (through Decoder::skip, here its R3 model).
#[kani::proof]
#[kani::unwind(6)]
#[kani::stub(minicbor::decode::Decoder::skip, crate::util::skip_r3_small)]
pub fn c17_de_ignored_any() {
    let a: [u8; 2] = kani::any();
    let inp = [0x82, 0x18, a[0], 0x18, a[1], 0x05];
    let mut d = Deserializer::new(&inp[..]);
    let r = (&mut d).deserialize_ignored_any(ShapeV);
    assert!(matches!(r, Ok(Shape::Unit)) && d.decoder().position() == 5);
}

/// Serializer and Deserializer agree on `is_human_readable()` (types such as the std::net
/// addresses choose their representation by it: a mismatch breaks their round trip), and the
/// bridge, a binary format, reports `false`.
#[kani::proof]
pub fn c17_human_readable_consistent() {
    let mut s = Serializer::new(Cursor::new([0u8; 4]));
    let buf = [0u8; 1];
    let mut d = Deserializer::new(&buf[..]);
    let a = serde::Serializer::is_human_readable(&&mut s);
    let b = serde::Deserializer::is_human_readable(&&mut d);
    assert!(a == b, "Serializer and Deserializer disagree on is_human_readable()");
    assert!(!a, "a binary format must not claim to be human readable");
}
