//! Kani harnesses over the real minicbor-serde bridge (C17 representation + method pairing,
//! C18 interoperability with the native traits).  Visitors are hand-written and minimal: the
//! subject is the bridge, not serde-derive's generated glue.
#![cfg_attr(not(feature = "std"), no_std)]
#![allow(unused_imports, dead_code, clippy::all)]
#![recursion_limit = "512"]

#[cfg(feature = "alloc")]
extern crate alloc;

#[cfg(kani)]
#[path = "../../core/src/util.rs"]
pub mod util;
#[cfg(kani)]
pub mod c17;
#[cfg(kani)]
pub mod c18;
#[cfg(kani)]
mod replay;
