//! C18 — the serde bridge and the native traits interoperate on the shared data model.
use crate::util::*;
use minicbor::encode::write::Cursor;
use minicbor::Decoder;
use minicbor_serde::{Deserializer, Serializer};
use serde::{Deserialize, Serialize};

fn ser_cap<T: Serialize>(v: &T) -> ([u8; CAP], usize, bool) {
    let mut s = Serializer::new(Cursor::new([0u8; CAP]));
    let ok = v.serialize(&mut s).is_ok();
    let c = s.into_encoder().into_writer();
    let p = c.position();
    (c.into_inner(), p, ok)
}

/// Identical bytes from `Encode` and `Serialize`, for all values of the type.
macro_rules! same_bytes {
    ($name:ident, $t:ty, $gen:expr) => {
        #[kani::proof]
        #[kani::unwind(10)]
        pub fn $name() {
            let v: $t = $gen;
            let (a, pa, oa) = enc_cap(&v);
            let (b, pb, ob) = ser_cap(&v);
            assert!(oa && ob);
            assert!(pa == pb, "Encode and Serialize write a different number of bytes");
            assert!(eq_cap(&a, &b), "Encode and Serialize write different bytes");
            kani::cover!(true);
        }
    };
}
same_bytes!(c18_bytes_u8, u8, kani::any());
same_bytes!(c18_bytes_u16, u16, kani::any());
same_bytes!(c18_bytes_u32, u32, kani::any());
same_bytes!(c18_bytes_u64, u64, kani::any());
same_bytes!(c18_bytes_i8, i8, kani::any());
same_bytes!(c18_bytes_i16, i16, kani::any());
same_bytes!(c18_bytes_i32, i32, kani::any());
same_bytes!(c18_bytes_i64, i64, kani::any());
same_bytes!(c18_bytes_bool, bool, kani::any());
same_bytes!(c18_bytes_char, char, kani::any());
same_bytes!(c18_bytes_f32, f32, f32::from_bits(kani::any()));
same_bytes!(c18_bytes_f64, f64, f64::from_bits(kani::any()));
same_bytes!(c18_bytes_unit, (), ());
same_bytes!(c18_bytes_option, Option<u16>, kani::any());
same_bytes!(c18_bytes_tuple2, (u8, bool), kani::any());
same_bytes!(c18_bytes_tuple_nested, ((i32, bool, Option<u8>), char), kani::any());
same_bytes!(c18_bytes_array2, [u16; 2], kani::any());

#[kani::proof]
#[kani::unwind(10)]
pub fn c18_bytes_str() {
    let p: [u8; 4] = kani::any();
    let n: usize = kani::any();
    kani::assume(n <= 4);
    kani::assume(vref::utf8_valid4(&p, n));
    let s = unsafe { core::str::from_utf8_unchecked(&p[..n]) };
    let (a, pa, oa) = enc_cap(&s);
    let (b, pb, ob) = ser_cap(&s);
    assert!(oa && ob && pa == pb && eq_cap(&a, &b));
}

/// Cross-decoding on the same bytes (any head width): if native `decode::<T>` and serde's
/// `T::deserialize` through the bridge both succeed they return the same value and stop at the
/// same position; where the item is an integer of the right range both succeed.
macro_rules! cross_int {
    ($name:ident, $t:ty) => {
        #[kani::proof]
        pub fn $name() {
            let (buf, len) = any_buf::<9>();
            let mut d = Decoder::new(&buf[..len]);
            let a = d.decode::<$t>();
            let mut s = Deserializer::new(&buf[..len]);
            let b = <$t>::deserialize(&mut s);
            match (a, b) {
                (Ok(x), Ok(y)) => { assert!(x == y, "native and serde decoding disagree on the value"); assert!(d.position() == s.decoder().position()) }
                (Ok(_), Err(_)) => assert!(false, "serde side rejects what the native side accepts"),
                (Err(_), Ok(_)) => assert!(false, "native side rejects what the serde side accepts"),
                _ => {}
            }
            kani::cover!(true);
        }
    };
}
cross_int!(c18_cross_u8, u8);
cross_int!(c18_cross_u32, u32);
cross_int!(c18_cross_i16, i16);
cross_int!(c18_cross_i64, i64);
cross_int!(c18_cross_bool, bool);

/// Composite shapes on type-directed inputs, incl. wider heads and indefinite containers: the
/// two sides never disagree on the value (either may reject an alternative encoding).
macro_rules! cross_td {
    ($name:ident, $t:ty, [$($b:expr),*]) => {
        #[kani::proof]
        #[kani::unwind(8)]
        #[kani::stub(minicbor::decode::Decoder::skip, crate::util::skip_r3_small)]
        pub fn $name() {
            let a: [u8; 3] = kani::any();
            let inp = [$($b(a)),*, 0xff];
            let mut d = Decoder::new(&inp[..]);
            let x = d.decode::<$t>();
            let mut s = Deserializer::new(&inp[..]);
            let y = <$t>::deserialize(&mut s);
            if let (Ok(x), Ok(y)) = (&x, &y) {
                assert!(x == y, "native and serde decoding disagree on the value");
                assert!(d.position() == s.decoder().position(), "native and serde decoding stop at different positions");
            }
            kani::cover!(x.is_ok() && y.is_ok(), "both sides accept this encoding");
        }
    };
}
fn k<const B: u8>(_a: [u8; 3]) -> u8 { B }
fn a0(a: [u8; 3]) -> u8 { a[0] }
fn a1(a: [u8; 3]) -> u8 { a[1] }
fn a2(a: [u8; 3]) -> u8 { a[2] }
cross_td!(c18_cross_tuple_pref, (u8, u16), [k::<0x82>, k::<0x18>, a0, k::<0x19>, a1, a2]);
cross_td!(c18_cross_tuple_wide, (u8, u16), [k::<0x82>, k::<0x19>, k::<0x00>, a0, k::<0x1a>, k::<0x00>, k::<0x00>, a1, a2]);
cross_td!(c18_cross_option_some, Option<u8>, [k::<0x18>, a0]);
cross_td!(c18_cross_option_none, Option<u8>, [k::<0xf6>]);
cross_td!(c18_cross_array_def, [u8; 2], [k::<0x82>, k::<0x18>, a0, k::<0x18>, a1]);
cross_td!(c18_cross_unit, (), [k::<0x80>]);

#[cfg(feature = "alloc")]
pub mod with_alloc {
    use super::*;
    use alloc::vec::Vec;

    /// NOT REGISTERED: does not finish in 15 min (serde's Vec visitor over an indefinite array whose
    /// elements are indefinite arrays); kept for reference.
    /// Nested re-framing: a sequence of fixed arrays, everything indefinite
    /// (`9f 9f a b ff 9f c d ff ff`): native and serde decoding never disagree on the value.
    #[kani::proof]
    #[kani::unwind(8)]
    #[kani::stub(minicbor::decode::Decoder::skip, crate::util::skip_r3_small)]
    pub fn c18_alloc_vec_of_arrays_indefinite() {
        let a: [u8; 4] = kani::any();
        kani::assume(a[0] < 24 && a[1] < 24 && a[2] < 24 && a[3] < 24);
        let inp = [0x9f, 0x9f, a[0] & 0x17, a[1] & 0x17, 0xff, 0x9f, a[2] & 0x17, a[3] & 0x17, 0xff, 0xff];
        let mut d = Decoder::new(&inp[..]);
        let x = d.decode::<Vec<[u8; 2]>>();
        let mut s = Deserializer::new(&inp[..]);
        let y = <Vec<[u8; 2]>>::deserialize(&mut s);
        if let (Ok(x), Ok(y)) = (&x, &y) {
            assert!(x.len() == y.len(), "native and serde decoding disagree on the number of elements");
            let mut i = 0;
            while i < 2 { if i < x.len() { assert!(x[i] == y[i], "native and serde decoding disagree on the value"); } i += 1; }
        }
        kani::cover!(x.is_ok());
        core::mem::forget(x);
        core::mem::forget(y);
    }
}

// ---- nested re-framing: indefinite containers inside an indefinite sequence ------------------
use crate::c17::{MapV, U8Seed};
use core::fmt;
use serde::de::{self, DeserializeSeed, SeqAccess, Visitor};

/// Outer sequence visitor collecting up to 3 elements produced by a seed.
struct Outer<S>(S);
impl<'de, S: DeserializeSeed<'de> + Copy> Visitor<'de> for Outer<S> where S::Value: Copy + Default {
    type Value = ([S::Value; 3], usize);
    fn expecting(&self, f: &mut fmt::Formatter) -> fmt::Result { f.write_str("outer seq") }
    fn visit_seq<A: SeqAccess<'de>>(self, mut a: A) -> Result<Self::Value, A::Error> {
        let mut out = [S::Value::default(); 3];
        let mut n = 0;
        let mut i = 0;
        while i < 4 {
            match a.next_element_seed(self.0)? { Some(x) => { if n < 3 { out[n] = x; } n += 1 } None => return Ok((out, n)) }
            i += 1;
        }
        Err(de::Error::custom("too many"))
    }
}
#[derive(Clone, Copy)]
struct ArrSeed;
impl<'de> DeserializeSeed<'de> for ArrSeed {
    type Value = [u8; 2];
    fn deserialize<D: de::Deserializer<'de>>(self, d: D) -> Result<[u8; 2], D::Error> { <[u8; 2]>::deserialize(d) }
}
#[derive(Clone, Copy)]
struct MapSeed;
impl<'de> DeserializeSeed<'de> for MapSeed {
    type Value = (u8, u8, usize);
    fn deserialize<D: de::Deserializer<'de>>(self, d: D) -> Result<(u8, u8, usize), D::Error> {
        d.deserialize_map(MapV).map(|(o, n)| (o[0].0, o[0].1, n))
    }
}

/// `9f 9f a b ff 9f c d ff ff` as a sequence of `[u8; 2]`: whenever both sides succeed they
/// deliver the same elements (a tuple decoder that leaves the inner break unread makes the
/// bridge stop after one element).
#[kani::proof]
#[kani::unwind(8)]
#[kani::stub(minicbor::decode::Decoder::skip, crate::util::skip_r3_small)]
pub fn c18_cross_seq_of_arrays_indefinite() {
    let a: [u8; 4] = kani::any();
    let inp = [0x9f, 0x9f, 0x18, a[0], 0x18, a[1], 0xff, 0x9f, 0x18, a[2], 0x18, a[3], 0xff, 0xff, 0x05];
    // native
    let mut d = Decoder::new(&inp[..]);
    let mut nat = [[0u8; 2]; 3];
    let mut nn = 0;
    let mut nat_ok = true;
    match d.array_iter::<[u8; 2]>() {
        Ok(it) => for x in it { match x { Ok(v) => { if nn < 3 { nat[nn] = v; } nn += 1 } Err(_) => { nat_ok = false; break } } if nn > 3 { break } },
        Err(_) => nat_ok = false,
    }
    // serde
    let mut s = Deserializer::new(&inp[..]);
    let r = serde::Deserializer::deserialize_seq(&mut s, Outer(ArrSeed));
    if let (true, Ok((ser, sn))) = (nat_ok, &r) {
        assert!(*sn == nn, "native and serde decoding disagree on the number of elements");
        let mut i = 0;
        while i < 3 { if i < nn { assert!(ser[i] == nat[i], "native and serde decoding disagree on an element"); } i += 1; }
        assert!(d.position() == s.decoder().position());
    }
    kani::cover!(nat_ok && nn == 2);
}

/// `9f bf k v ff bf k v ff ff`: a sequence of indefinite maps, native `map_iter_with` vs the bridge.
#[kani::proof]
#[kani::unwind(8)]
#[kani::stub(minicbor::decode::Decoder::skip, crate::util::skip_r3_small)]
pub fn c18_cross_seq_of_maps_indefinite() {
    let a: [u8; 4] = kani::any();
    let inp = [0x9f, 0xbf, 0x18, a[0], 0x18, a[1], 0xff, 0xbf, 0x18, a[2], 0x18, a[3], 0xff, 0xff, 0x05];
    // native: outer indefinite array by hand, inner maps through map_iter_with
    let mut d = Decoder::new(&inp[..]);
    let mut nat = [(0u8, 0u8, 0usize); 3];
    let mut nn = 0;
    let mut nat_ok = matches!(d.array(), Ok(None));
    let mut guard = 0;
    while nat_ok && guard < 4 {
        guard += 1;
        match d.datatype() { Ok(minicbor::data::Type::Break) => { let _ = d.skip(); break } Ok(_) => {} Err(_) => { nat_ok = false; break } }
        let mut ctx = ();
        let mut e = (0u8, 0u8, 0usize);
        match d.map_iter_with::<(), u8, u8>(&mut ctx) {
            Ok(it) => for x in it { match x { Ok((k, v)) => { if e.2 == 0 { e.0 = k; e.1 = v; } e.2 += 1 } Err(_) => { nat_ok = false; break } } if e.2 > 2 { break } },
            Err(_) => nat_ok = false,
        }
        if nn < 3 { nat[nn] = e; }
        nn += 1;
    }
    let mut s = Deserializer::new(&inp[..]);
    let r = serde::Deserializer::deserialize_seq(&mut s, Outer(MapSeed));
    if let (true, Ok((ser, sn))) = (nat_ok, &r) {
        assert!(*sn == nn, "native and serde decoding disagree on the number of maps");
        let mut i = 0;
        while i < 3 { if i < nn { assert!(ser[i] == nat[i], "native and serde decoding disagree on a map"); } i += 1; }
    }
    kani::cover!(nat_ok && nn == 2);
}
