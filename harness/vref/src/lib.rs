//! Reference models (oracles) for the solver-based checks of minicbor.
//!
//! Written from RFC 8949 (section 3, Appendix B/C) and RFC 3629; shares no code
//! with minicbor.  Every function is loop-bounded by an explicit argument or by a
//! constant so that it can be unwound by CBMC.
#![no_std]

/// R1: a decoded head (initial byte + argument).
#[derive(Clone, Copy, Debug, PartialEq, Eq)]
pub struct Head {
    /// major type 0..=7
    pub major: u8,
    /// additional information 0..=31
    pub ai: u8,
    /// the argument (0 for ai == 31)
    pub arg: u64,
    /// number of bytes of the head: 1, 2, 3, 5 or 9
    pub width: usize,
}

#[derive(Clone, Copy, Debug, PartialEq, Eq)]
pub enum HeadR {
    Ok(Head),
    /// not enough bytes for the head
    Trunc,
    /// additional information 28, 29, 30 (reserved, not well-formed)
    Reserved,
}

#[inline]
fn byte(buf: &[u8], i: usize) -> u64 {
    buf[i] as u64
}

/// R1: read the head at `pos`.
pub fn read_head(buf: &[u8], pos: usize) -> HeadR {
    if pos >= buf.len() {
        return HeadR::Trunc;
    }
    let ib = buf[pos];
    let major = ib >> 5;
    let ai = ib & 0x1f;
    let avail = buf.len() - pos;
    if ai < 24 {
        return HeadR::Ok(Head { major, ai, arg: ai as u64, width: 1 });
    }
    if ai == 24 {
        if avail < 2 { return HeadR::Trunc }
        return HeadR::Ok(Head { major, ai, arg: byte(buf, pos + 1), width: 2 });
    }
    if ai == 25 {
        if avail < 3 { return HeadR::Trunc }
        let a = (byte(buf, pos + 1) << 8) | byte(buf, pos + 2);
        return HeadR::Ok(Head { major, ai, arg: a, width: 3 });
    }
    if ai == 26 {
        if avail < 5 { return HeadR::Trunc }
        let a = (byte(buf, pos + 1) << 24) | (byte(buf, pos + 2) << 16)
              | (byte(buf, pos + 3) << 8)  |  byte(buf, pos + 4);
        return HeadR::Ok(Head { major, ai, arg: a, width: 5 });
    }
    if ai == 27 {
        if avail < 9 { return HeadR::Trunc }
        let a = (byte(buf, pos + 1) << 56) | (byte(buf, pos + 2) << 48)
              | (byte(buf, pos + 3) << 40) | (byte(buf, pos + 4) << 32)
              | (byte(buf, pos + 5) << 24) | (byte(buf, pos + 6) << 16)
              | (byte(buf, pos + 7) << 8)  |  byte(buf, pos + 8);
        return HeadR::Ok(Head { major, ai, arg: a, width: 9 });
    }
    if ai == 31 {
        return HeadR::Ok(Head { major, ai, arg: 0, width: 1 });
    }
    HeadR::Reserved
}

/// R2: preferred (shortest) head for `(major, arg)`; returns bytes and length.
pub fn put_head(major: u8, arg: u64) -> ([u8; 9], usize) {
    let m = major << 5;
    let mut o = [0u8; 9];
    if arg < 24 {
        o[0] = m | arg as u8;
        (o, 1)
    } else if arg < 0x100 {
        o[0] = m | 24;
        o[1] = arg as u8;
        (o, 2)
    } else if arg < 0x1_0000 {
        o[0] = m | 25;
        o[1] = (arg >> 8) as u8;
        o[2] = arg as u8;
        (o, 3)
    } else if arg < 0x1_0000_0000 {
        o[0] = m | 26;
        o[1] = (arg >> 24) as u8;
        o[2] = (arg >> 16) as u8;
        o[3] = (arg >> 8) as u8;
        o[4] = arg as u8;
        (o, 5)
    } else {
        o[0] = m | 27;
        o[1] = (arg >> 56) as u8;
        o[2] = (arg >> 48) as u8;
        o[3] = (arg >> 40) as u8;
        o[4] = (arg >> 32) as u8;
        o[5] = (arg >> 24) as u8;
        o[6] = (arg >> 16) as u8;
        o[7] = (arg >> 8) as u8;
        o[8] = arg as u8;
        (o, 9)
    }
}

/// Length in bytes of the preferred head for `arg`.
pub fn head_len(arg: u64) -> usize {
    if arg < 24 { 1 } else if arg < 0x100 { 2 } else if arg < 0x1_0000 { 3 }
    else if arg < 0x1_0000_0000 { 5 } else { 9 }
}

/// Head written at a *chosen* width `w` in {1,2,3,5,9} (non-preferred allowed,
/// `arg` must fit).  Returns bytes and length; panics if it does not fit.
pub fn put_head_w(major: u8, arg: u64, w: usize) -> ([u8; 9], usize) {
    let m = major << 5;
    let mut o = [0u8; 9];
    match w {
        1 => { assert!(arg < 24); o[0] = m | arg as u8; }
        2 => { assert!(arg < 0x100); o[0] = m | 24; o[1] = arg as u8; }
        3 => { assert!(arg < 0x1_0000); o[0] = m | 25; o[1] = (arg >> 8) as u8; o[2] = arg as u8; }
        5 => {
            assert!(arg < 0x1_0000_0000);
            o[0] = m | 26;
            o[1] = (arg >> 24) as u8; o[2] = (arg >> 16) as u8; o[3] = (arg >> 8) as u8; o[4] = arg as u8;
        }
        _ => {
            o[0] = m | 27;
            o[1] = (arg >> 56) as u8; o[2] = (arg >> 48) as u8; o[3] = (arg >> 40) as u8; o[4] = (arg >> 32) as u8;
            o[5] = (arg >> 24) as u8; o[6] = (arg >> 16) as u8; o[7] = (arg >> 8) as u8; o[8] = arg as u8;
            return (o, 9)
        }
    }
    (o, w)
}

/// R3 verdict.
#[derive(Clone, Copy, Debug, PartialEq, Eq)]
pub enum Wf {
    /// exactly one well-formed item ends at `end`; `indef_in_def` is set when an
    /// indefinite-length array or map occurs inside a definite-length array or map
    Ok { end: usize, indef_in_def: bool },
    /// the bytes are a strict prefix of at least one well-formed item (ran out of input)
    Trunc,
    /// not well-formed, whatever follows
    Bad,
    /// the bound (`max_heads` or nesting depth `D`) of the model was exceeded
    Bound,
}

#[derive(Clone, Copy)]
enum Fr {
    /// definite array / map (items remaining); `cont` says it is an array or map (not a tag)
    Def { left: u64, cont: bool },
    IndefArr,
    /// indefinite map; `odd` = a key has been read and its value is pending
    IndefMap { odd: bool },
    /// indefinite byte (major 2) or text (major 3) string: only definite chunks of the same major
    IndefStr { major: u8 },
}

/// R3: well-formedness / item-boundary parser (RFC 8949 Appendix C), iterative with
/// an explicit stack of depth `D`, reading at most `max_heads` heads.
pub fn wellformed<const D: usize>(buf: &[u8], start: usize, max_heads: usize) -> Wf {
    let mut stack: [Fr; D] = [Fr::IndefArr; D];
    let mut sp: usize = 0;
    let mut pos = start;
    let mut flag = false;
    let mut heads = 0usize;
    loop {
        if heads >= max_heads {
            return Wf::Bound;
        }
        heads += 1;
        let h = match read_head(buf, pos) {
            HeadR::Ok(h) => h,
            HeadR::Trunc => return Wf::Trunc,
            HeadR::Reserved => return Wf::Bad,
        };
        pos += h.width;
        // `complete` = an item has just been completed at `pos`
        let mut complete;
        let in_str = if sp > 0 { matches!(stack[sp - 1], Fr::IndefStr { .. }) } else { false };
        if in_str {
            let m = match stack[sp - 1] { Fr::IndefStr { major } => major, _ => 0 };
            if h.major == 7 && h.ai == 31 {
                sp -= 1;
                complete = true;
            } else if h.major == m && h.ai != 31 {
                // definite chunk
                let avail = (buf.len() - pos) as u64;
                if h.arg > avail { return Wf::Trunc }
                pos += h.arg as usize;
                complete = false;
            } else {
                return Wf::Bad;
            }
        } else {
            match h.major {
                0 | 1 => {
                    if h.ai == 31 { return Wf::Bad }
                    complete = true;
                }
                2 | 3 => {
                    if h.ai == 31 {
                        if sp == D { return Wf::Bound }
                        stack[sp] = Fr::IndefStr { major: h.major };
                        sp += 1;
                        complete = false;
                    } else {
                        let avail = (buf.len() - pos) as u64;
                        if h.arg > avail { return Wf::Trunc }
                        pos += h.arg as usize;
                        complete = true;
                    }
                }
                4 | 5 => {
                    let mut in_def = false;
                    let mut i = 0;
                    while i < D {
                        if i < sp {
                            if let Fr::Def { cont: true, .. } = stack[i] { in_def = true }
                        }
                        i += 1;
                    }
                    if h.ai == 31 {
                        if in_def { flag = true }
                        if sp == D { return Wf::Bound }
                        stack[sp] = if h.major == 4 { Fr::IndefArr } else { Fr::IndefMap { odd: false } };
                        sp += 1;
                        complete = false;
                    } else {
                        let n = if h.major == 4 { h.arg } else { h.arg.saturating_mul(2) };
                        if n == 0 {
                            complete = true;
                        } else {
                            if sp == D { return Wf::Bound }
                            stack[sp] = Fr::Def { left: n, cont: true };
                            sp += 1;
                            complete = false;
                        }
                    }
                }
                6 => {
                    if h.ai == 31 { return Wf::Bad }
                    if sp == D { return Wf::Bound }
                    stack[sp] = Fr::Def { left: 1, cont: false };
                    sp += 1;
                    complete = false;
                }
                _ => {
                    // major 7
                    if h.ai == 31 {
                        // break: only valid directly inside an indefinite array, or an
                        // indefinite map at even parity
                        if sp == 0 { return Wf::Bad }
                        match stack[sp - 1] {
                            Fr::IndefArr => { sp -= 1; complete = true }
                            Fr::IndefMap { odd: false } => { sp -= 1; complete = true }
                            _ => return Wf::Bad,
                        }
                    } else if h.ai == 24 && h.arg < 32 {
                        return Wf::Bad;
                    } else {
                        complete = true;
                    }
                }
            }
        }
        // propagate completion upwards
        let mut guard = 0;
        while complete && guard <= D {
            guard += 1;
            if sp == 0 {
                return Wf::Ok { end: pos, indef_in_def: flag };
            }
            match stack[sp - 1] {
                Fr::Def { left, cont } => {
                    if left <= 1 {
                        sp -= 1;
                        complete = true;
                    } else {
                        stack[sp - 1] = Fr::Def { left: left - 1, cont };
                        complete = false;
                    }
                }
                Fr::IndefArr => { complete = false }
                Fr::IndefMap { odd } => {
                    stack[sp - 1] = Fr::IndefMap { odd: !odd };
                    complete = false;
                }
                Fr::IndefStr { .. } => { complete = false }
            }
        }
    }
}

/// R5: the f32 bit pattern denoting exactly the same real value as the half-precision
/// pattern `h` (IEEE 754 binary16 -> binary32 is always exact).  NaNs map to a
/// NaN with the payload shifted into the top of the f32 mantissa.
pub fn half_to_f32_bits(h: u16) -> u32 {
    let sign = ((h >> 15) as u32) << 31;
    let exp = ((h >> 10) & 0x1f) as u32;
    let man = (h & 0x3ff) as u32;
    if exp == 0x1f {
        // inf / nan
        return sign | 0x7f80_0000 | (man << 13);
    }
    if exp == 0 {
        if man == 0 {
            return sign;
        }
        // subnormal: value = man * 2^-24. normalise.
        let mut e: u32 = 127 - 15 + 1; // exponent if the leading bit were at position 10
        let mut m = man;
        let mut i = 0;
        while i < 10 {
            if m & 0x400 == 0 {
                m <<= 1;
                e -= 1;
            }
            i += 1;
        }
        return sign | (e << 23) | ((m & 0x3ff) << 13);
    }
    sign | ((exp + 127 - 15) << 23) | (man << 13)
}

/// R8: is `b[..n]` (n <= 4) valid UTF-8 per RFC 3629 (table 3-7 of Unicode)?
pub fn utf8_valid4(b: &[u8; 4], n: usize) -> bool {
    let mut i = 0usize;
    let mut steps = 0;
    while i < n && steps < 4 {
        steps += 1;
        let c = b[i];
        let rem = n - i;
        if c < 0x80 {
            i += 1;
        } else if c >= 0xc2 && c <= 0xdf {
            if rem < 2 { return false }
            if !cont(b[i + 1]) { return false }
            i += 2;
        } else if c >= 0xe0 && c <= 0xef {
            if rem < 3 { return false }
            let c1 = b[i + 1];
            let ok1 = if c == 0xe0 { c1 >= 0xa0 && c1 <= 0xbf }
                 else if c == 0xed { c1 >= 0x80 && c1 <= 0x9f }
                 else { cont(c1) };
            if !ok1 || !cont(b[i + 2]) { return false }
            i += 3;
        } else if c >= 0xf0 && c <= 0xf4 {
            if rem < 4 { return false }
            let c1 = b[i + 1];
            let ok1 = if c == 0xf0 { c1 >= 0x90 && c1 <= 0xbf }
                 else if c == 0xf4 { c1 >= 0x80 && c1 <= 0x8f }
                 else { cont(c1) };
            if !ok1 || !cont(b[i + 2]) || !cont(b[i + 3]) { return false }
            i += 4;
        } else {
            return false;
        }
    }
    i == n
}

#[inline]
fn cont(c: u8) -> bool {
    c & 0xc0 == 0x80
}

/// Mathematical value of a CBOR integer head (major 0 or 1) as i128.
pub fn int_value(major: u8, arg: u64) -> i128 {
    if major == 0 { arg as i128 } else { -1 - (arg as i128) }
}

/// R7: frame = 4-byte big-endian length then payload.
pub fn frame_len_prefix(n: u32) -> [u8; 4] {
    [(n >> 24) as u8, (n >> 16) as u8, (n >> 8) as u8, n as u8]
}

/// R5: IEEE 754 round-to-nearest-even conversion binary32 -> binary16 on bit patterns
/// (the textbook integer algorithm: shift the significand, round on the discarded bits,
/// let the carry ripple into the exponent).  NaN maps to a quiet NaN with the sign kept.
pub fn f32_to_half_rne(x: u32) -> u16 {
    let sign = ((x >> 16) & 0x8000) as u16;
    let e = ((x >> 23) & 0xff) as i32;
    let m = x & 0x7f_ffff;
    if e == 0xff {
        return if m == 0 { sign | 0x7c00 } else { sign | 0x7e00 | ((m >> 13) as u16 & 0x3ff) };
    }
    // unbiased exponent
    let ue = e - 127;
    if ue > 15 {
        return sign | 0x7c00; // > 65504 by more than the rounding window: overflow
    }
    if ue >= -14 {
        // normal half: 10 mantissa bits, 13 discarded
        let he = (ue + 15) as u32;
        let base = (he << 10) | (m >> 13);
        let rest = m & 0x1fff;
        let up = rest > 0x1000 || (rest == 0x1000 && (base & 1) == 1);
        // carry may ripple into the exponent and up to infinity (0x7c00): correct per IEEE
        return sign | (base + up as u32) as u16;
    }
    // subnormal half or zero: value = 1.m * 2^ue, unit 2^-24
    if e == 0 {
        return sign; // f32 subnormal: far below 2^-25
    }
    let full = m | 0x80_0000; // 24 bits, value = full * 2^(ue-23)
    let shift = (-ue - 1) as u32; // result = full * 2^(ue-23+24) = full >> (-ue-1)
    if shift > 25 {
        return sign;
    }
    let base = full >> shift;
    let rest = full & ((1u32 << shift) - 1);
    let half = 1u32 << (shift - 1);
    let up = rest > half || (rest == half && (base & 1) == 1);
    sign | (base + up as u32) as u16
}
