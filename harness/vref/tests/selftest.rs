//! Native self-test of the oracles.  Independent of minicbor: RFC 8949 Appendix A
//! vectors, core::str and f64 arithmetic are the references.
use vref::*;

fn hex(s: &str) -> Vec<u8> {
    (0..s.len() / 2).map(|i| u8::from_str_radix(&s[2 * i..2 * i + 2], 16).unwrap()).collect()
}

// RFC 8949 Appendix A (all well-formed single items).
const VECTORS: &[&str] = &[
    "00", "01", "0a", "17", "1818", "1819", "1864", "1903e8", "1a000f4240", "1b000000e8d4a51000",
    "1bffffffffffffffff", "c249010000000000000000", "3bffffffffffffffff", "c349010000000000000000",
    "20", "29", "3863", "3903e7", "f90000", "f98000", "f93c00", "fb3ff199999999999a", "f93e00",
    "f97bff", "fa47c35000", "fa7f7fffff", "fb7e37e43c8800759c", "f90001", "f90400", "f9c400",
    "fbc010666666666666", "f97c00", "f97e00", "f9fc00", "fa7f800000", "fa7fc00000", "faff800000",
    "fb7ff0000000000000", "fb7ff8000000000000", "fbfff0000000000000", "f4", "f5", "f6", "f7", "f0",
    "f8ff", "c074323031332d30332d32315432303a30343a30305a", "c11a514b67b0", "c1fb41d452d9ec200000",
    "d74401020304", "d818456449455446", "d82076687474703a2f2f7777772e6578616d706c652e636f6d",
    "40", "4401020304", "60", "6161", "6449455446", "62225c", "62c3bc", "63e6b0b4", "64f0908591",
    "80", "83010203", "8301820203820405", "98190102030405060708090a0b0c0d0e0f101112131415161718181819",
    "a0", "a201020304", "a26161016162820203", "826161a161626163",
    "a56161614161626142616361436164614461656145", "5f42010243030405ff", "7f657374726561646d696e67ff",
    "9fff", "9f018202039f0405ffff", "9f01820203820405ff", "83018202039f0405ff", "83019f0203ff820405",
    "9f0102030405060708090a0b0c0d0e0f101112131415161718181819ff", "bf61610161629f0203ffff",
    "826161bf61626163ff", "bf6346756ef563416d7421ff",
];

// RFC 8949 Appendix F style ill-formed examples (subset that is ill-formed as a whole, not truncated).
const BAD: &[&str] = &[
    "1c", "1d", "1e", "3c", "5c", "7e", "9d", "bc", "dd", "fc", "fd", "fe",
    "f800", "f801", "f818", "f81f",
    "5f00ff", "5f21ff", "5f6100ff", "5f80ff", "5fa0ff", "5fc000ff", "5fe0ff", "7f4100ff",
    "5f5f4100ffff", "7f7f6100ffff",
    "ff", "81ff", "8200ff", "a1ff", "a1ff00", "a100ff", "a20000ff", "9f81ff", "9f829f819f9fffffffff",
    "bf00ff", "bf000000ff", "1f", "3f", "df",
];

#[test]
fn r3_accepts_rfc_vectors_and_their_prefixes_are_truncated() {
    for v in VECTORS {
        let b = hex(v);
        match wellformed::<8>(&b, 0, 64) {
            Wf::Ok { end, .. } => assert_eq!(end, b.len(), "{v}"),
            o => panic!("{v}: {o:?}"),
        }
        for k in 0..b.len() {
            assert_eq!(wellformed::<8>(&b[..k], 0, 64), Wf::Trunc, "prefix {k} of {v}");
        }
        // with a suffix: same end
        let mut c = b.clone();
        c.extend_from_slice(&[0xff, 0x00, 0x9f]);
        match wellformed::<8>(&c, 0, 64) {
            Wf::Ok { end, .. } => assert_eq!(end, b.len(), "{v}+suffix"),
            o => panic!("{v}+suffix: {o:?}"),
        }
    }
}

#[test]
fn r3_rejects_illformed() {
    for v in BAD {
        let b = hex(v);
        assert_eq!(wellformed::<8>(&b, 0, 64), Wf::Bad, "{v}");
    }
}

#[test]
fn r3_flags_indefinite_inside_definite() {
    let f = |s: &str| match wellformed::<8>(&hex(s), 0, 64) { Wf::Ok { indef_in_def, .. } => indef_in_def, o => panic!("{s}: {o:?}") };
    assert!(f("83018202039f0405ff"));
    assert!(f("819fff"));
    assert!(f("a1009fff"));
    assert!(f("9f819fffff"));
    assert!(!f("9f018202039f0405ffff"));
    assert!(!f("c19fff"));
    assert!(!f("815f4100ff"));
    assert!(!f("83010203"));
}

#[test]
fn r1_r2_heads() {
    let args: Vec<u64> = {
        let mut v = vec![0u64, 1, 22, 23, 24, 25, 254, 255, 256, 257, 65534, 65535, 65536, 65537,
            0xffff_fffe, 0xffff_ffff, 0x1_0000_0000, 0x1_0000_0001, u64::MAX - 1, u64::MAX, 1 << 63, (1 << 63) - 1];
        let mut x = 0x9e3779b97f4a7c15u64;
        for _ in 0..2000 { x ^= x << 13; x ^= x >> 7; x ^= x << 17; v.push(x); v.push(x >> 33); v.push(x >> 49); v.push(x >> 57) }
        v
    };
    for major in 0..8u8 {
        for &a in &args {
            let (b, n) = put_head(major, a);
            assert_eq!(n, head_len(a));
            // preferred: no shorter width fits
            let exp = if a < 24 { 1 } else if a <= 0xff { 2 } else if a <= 0xffff { 3 } else if a <= 0xffff_ffff { 5 } else { 9 };
            assert_eq!(n, exp);
            match read_head(&b[..n], 0) {
                HeadR::Ok(h) => { assert_eq!((h.major, h.arg, h.width), (major, a, n)); }
                o => panic!("{o:?}"),
            }
            for k in 0..n { assert_eq!(read_head(&b[..k], 0), HeadR::Trunc); }
            for w in [1usize, 2, 3, 5, 9] {
                if w >= n {
                    let (c, m) = put_head_w(major, a, w);
                    assert_eq!(m, w);
                    match read_head(&c[..m], 0) {
                        HeadR::Ok(h) => assert_eq!((h.major, h.arg, h.width), (major, a, w)),
                        o => panic!("{o:?}"),
                    }
                }
            }
        }
    }
    // known bytes
    assert_eq!(&put_head(0, 1000).0[..3], &[0x19, 0x03, 0xe8]);
    assert_eq!(&put_head(1, 999).0[..3], &[0x39, 0x03, 0xe7]);
    assert_eq!(&put_head(0, 1000000).0[..5], &[0x1a, 0x00, 0x0f, 0x42, 0x40]);
    assert_eq!(&put_head(0, 1000000000000).0[..9], &[0x1b, 0x00, 0x00, 0x00, 0xe8, 0xd4, 0xa5, 0x10, 0x00]);
    assert_eq!(read_head(&[0x1c], 0), HeadR::Reserved);
    assert_eq!(read_head(&[0xfe], 0), HeadR::Reserved);
    assert_eq!(int_value(1, u64::MAX), -18446744073709551616i128);
    assert_eq!(int_value(0, u64::MAX), 18446744073709551615i128);
}

#[test]
fn r5_half_exhaustive_against_f64_arithmetic() {
    for h in 0..=u16::MAX {
        let s = if h >> 15 == 1 { -1.0f64 } else { 1.0 };
        let e = ((h >> 10) & 0x1f) as i32;
        let m = (h & 0x3ff) as f64;
        let bits = half_to_f32_bits(h);
        let got = f32::from_bits(bits);
        if e == 31 {
            if m == 0.0 { assert_eq!(got as f64, s * f64::INFINITY) } else { assert!(got.is_nan()); assert_eq!(bits >> 31, (h >> 15) as u32) }
            continue;
        }
        let want = if e == 0 { s * m * 2f64.powi(-24) } else { s * (1.0 + m / 1024.0) * 2f64.powi(e - 15) };
        assert_eq!(got as f64, want, "{h:#x}");
        assert_eq!(got.is_sign_negative(), h >> 15 == 1);
    }
    // RFC vectors
    assert_eq!(f32::from_bits(half_to_f32_bits(0x3c00)), 1.0);
    assert_eq!(f32::from_bits(half_to_f32_bits(0x3e00)), 1.5);
    assert_eq!(f32::from_bits(half_to_f32_bits(0x7bff)), 65504.0);
    assert_eq!(f32::from_bits(half_to_f32_bits(0x0001)) as f64, 5.960464477539063e-08);
    assert_eq!(f32::from_bits(half_to_f32_bits(0x0400)) as f64, 6.103515625e-05);
    assert_eq!(f32::from_bits(half_to_f32_bits(0xc400)), -4.0);
}

#[test]
fn r8_utf8_against_core() {
    let chk = |b: [u8; 4], n: usize| assert_eq!(utf8_valid4(&b, n), core::str::from_utf8(&b[..n]).is_ok(), "{b:x?} {n}");
    chk([0; 4], 0);
    for a in 0..=255u8 { chk([a, 0, 0, 0], 1); for b in 0..=255u8 { chk([a, b, 0, 0], 2); } }
    for a in 0..=255u8 { for b in 0..=255u8 { for c in (0..=255u8).step_by(1) { chk([a, b, c, 0], 3); } } }
    // 4 bytes: all leads x all seconds x boundary thirds/fourths
    let edge = [0x00u8, 0x41, 0x7f, 0x80, 0x8f, 0x90, 0x9f, 0xa0, 0xbf, 0xc0, 0xc2, 0xdf, 0xe0, 0xed, 0xef, 0xf0, 0xf4, 0xf5, 0xff];
    for a in 0..=255u8 { for b in 0..=255u8 { for &c in &edge { for &d in &edge { chk([a, b, c, d], 4); } } } }
}

#[test]
fn r5_f32_to_half_against_half_crate_and_exactness() {
    // (1) exact on every half-representable value
    for h in 0..=u16::MAX {
        let e = (h >> 10) & 0x1f; let m = h & 0x3ff;
        if e == 31 && m != 0 { continue }
        assert_eq!(f32_to_half_rne(half_to_f32_bits(h)), h, "{h:#x}");
    }
    // (2) agreement with the `half` crate's software conversion on a dense stratified set:
    // every exponent x boundary mantissas, plus 2^24 pseudo-random patterns
    let chk = |x: u32| {
        let want = half::f16::from_f32(f32::from_bits(x)).to_bits();
        let got = f32_to_half_rne(x);
        if f32::from_bits(x).is_nan() { assert!(half::f16::from_bits(got).is_nan()); assert_eq!(got >> 15, want >> 15) }
        else { assert_eq!(got, want, "{x:#x}") }
    };
    let ms = [0u32, 1, 0xfff, 0x1000, 0x1001, 0x1fff, 0x2000, 0x2fff, 0x3000, 0x3001, 0x7fefff, 0x7ff000, 0x7ff001, 0x7fffff, 0x400000, 0x3fffff];
    for s in 0..2u32 { for e in 0..=255u32 { for &m in &ms { chk((s << 31) | (e << 23) | m); } } }
    let mut x = 0x2545f491u32;
    for _ in 0..(1 << 22) { x ^= x << 13; x ^= x >> 17; x ^= x << 5; chk(x); chk(x & 0xc7ff_ffff | 0x3800_0000); }
    // the region around the overflow threshold and the subnormal boundary, exhaustively
    for x in 0x477f_0000u32..0x4780_2000 { chk(x); chk(x | 0x8000_0000); }
    for x in 0x3300_0000u32..0x3380_0100 { chk(x); }
    for x in 0x3870_0000u32..0x3880_1000 { chk(x); }
}
