#!/usr/bin/env python3
"""Regenerate MANIFEST.json from checks_config.py (single source of truth)."""
import json, os, sys
ROOT = os.path.dirname(os.path.abspath(__file__))
sys.path.insert(0, ROOT)
import checks_config as CFG

checks = []
for pid, p in sorted(CFG.PROPS.items()):
    if not pid.startswith("C"):
        continue
    checks.append({
        "property_id": pid,
        "quick_cmd": "./check %s --tier quick" % pid,
        "thorough_cmd": "./check %s --tier thorough" % pid,
        "evidence_file": "/verif/evidence/%s.json" % pid,
        "replay_cmd_template": "./check replay {path}",
        "engine": "kani-cbmc",
        "level_claimed": {
            "category": "model_checking",
            "text": p.get("level_text", "Bounded model checking of the compiled minicbor code with symbolic inputs: "
                          "holds for every input inside the stated bounds, nothing claimed outside. ") + " Bounds: " + p.get("bounds", ""),
            "design_ref": "DESIGN.md section 3, " + pid,
        },
        "level_note": "Trusted: rustc/Kani/CBMC/CaDiCaL, the reference models in harness/vref (self-tested each run), "
                      "stubs and models named in the evidence. Outside the claim: " + p.get("outside", ""),
        "technique": p.get("technique", "Kani proof harnesses (CBMC bounded model checking, SAT) over the real code vs. an independent reference model; counterexamples replayed natively"),
    })
m = {
    "version": 1,
    "setup_cmd": "./check setup",
    "hooks": {
        "guard": "minicbor_verif",
        "enable": "RUSTFLAGS='--cfg minicbor_verif' (set by ./check only for the minicbor-io harness crate)",
        "baseline_off_cmd": "cd /repo && cargo test --workspace --no-fail-fast --offline",
        "source_commits": CFG.HOOK_COMMITS,
        "add_only": True,
    },
    "engines": [{
        "name": "kani-cbmc", "path": "/verif/check",
        "serves_properties": [c["property_id"] for c in checks],
        "kind_free_text": "Kani 0.68 proof harnesses in /verif/harness/* with path dependencies on /repo; CBMC 6.11 + CaDiCaL decide; python driver classifies, replays and writes evidence",
    }],
    "checks": checks,
    "not_applicable": CFG.NOT_APPLICABLE,
    "notes": "Exit 0 = held within bounds (KNOWN-FINDING lines possible), 1 = VIOLATION (replayed natively), 2 = INCONCLUSIVE (timeout/OOM/vacuous/unreproduced).",
}
json.dump(m, open(os.path.join(ROOT, "MANIFEST.json"), "w"), indent=1)
print("MANIFEST.json: %d checks, %d not applicable" % (len(checks), len(m["not_applicable"])))
